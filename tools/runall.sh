#!/bin/bash
# run every claimed check on /repo as it is; usage: tools/runall.sh [quick|thorough]
cd "$(dirname "$0")/.."
T=${1:-quick}
rc=0
for id in $(/verif/.venv/bin/python -c "import json;print(' '.join(c['property_id'] for c in json.load(open('MANIFEST.json'))['checks']))"); do
  s=$(date +%s)
  out=$(./check $id --tier $T 2>&1); r=$?
  echo "$id rc=$r $(( $(date +%s) - s ))s | $(echo "$out" | tail -1 | cut -c1-220)"
  [ $r -ne 0 ] && { rc=1; echo "$out" | grep -E "VIOLATION|HARNESS|INCONCLUSIVE|what:" | head -8 | cut -c1-300; }
done
exit $rc
