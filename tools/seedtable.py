#!/usr/bin/env python3
"""Regenerate the seeded-change table of DESIGN.md section 13 from seeded/*/meta.json.

usage: tools/seedtable.py            print the table
       tools/seedtable.py --update-design   replace the table between the seedtable markers of DESIGN.md
       tools/seedtable.py --stamp F  record first-run results from a file with lines "<seed> caught|missed"
"""
import json
import os
import re
import sys

ROOT = os.path.join(os.path.dirname(os.path.abspath(__file__)), "..", "seeded")


def clip(s, n=140):
    s = re.sub(r"\s+", " ", str(s)).replace("|", "/")
    return s[:n]


def main():
    if len(sys.argv) == 2 and sys.argv[1] == "--update-design":
        import subprocess
        table = subprocess.run([sys.executable, os.path.abspath(__file__)], capture_output=True, text=True).stdout
        p = os.path.join(ROOT, "..", "DESIGN.md")
        s = open(p).read()
        a, b = "<!-- seedtable:begin (regenerate with tools/seedtable.py) -->\n", "<!-- seedtable:end -->"
        i, j = s.index(a) + len(a), s.index(b)
        open(p, "w").write(s[:i] + table + s[j:])
        return
    if len(sys.argv) == 3 and sys.argv[1] == "--stamp":
        for ln in open(sys.argv[2]):
            seed, res = ln.split()[:2]
            p = os.path.join(ROOT, seed, "meta.json")
            d = json.load(open(p))
            if "first_run_quick" not in d:
                d["first_run_quick"] = res
                json.dump(d, open(p, "w"), indent=1)
        return
    print("| seed | change | needs in order to manifest | first run | after strengthening |")
    print("|------|--------|-----------------------------|-----------|---------------------|")
    n = caught1 = 0
    for seed in sorted(os.listdir(ROOT)):
        p = os.path.join(ROOT, seed, "meta.json")
        if not os.path.exists(p):
            continue
        d = json.load(open(p))
        v = d.get("verification")
        prop = d.get("property", seed.split("_")[0])
        if d.get("final"):
            fin = d["final"]
        elif isinstance(v, dict) and v.get("caught_by"):
            fin = "caught by " + ", ".join(v["caught_by"])
        elif isinstance(v, dict) and v.get("caught_by_own_check"):
            fin = "caught by " + prop
        else:
            fin = d.get("after_strengthening", "?")
        fr = d.get("first_run_quick", "?")
        n += 1
        caught1 += fr == "caught"
        print(f"| {seed} | {clip(d.get('summary'), 160)} | {clip(d.get('needs'), 140)} | {fr} | {fin} |")
    print(f"\n({n} seeded changes; {caught1} caught by the first run of the property's own quick check.)")


if __name__ == "__main__":
    main()
