#!/usr/bin/env python3
"""Regression over the seeded changes: every /verif/seeded/<id>_<x>/patch.diff is applied to a scratch worktree of /repo HEAD
and the property's own check must report it (exit 1 + VIOLATION line).  Maintenance tool, not part of any check.

usage: tools/regress.py [--lanes 3] [--jobs 5] [--tier quick] [Cxx ...]     (default: every property)
Writes out/regress.json; nothing is written to evidence/ (CGV_NO_EVIDENCE=1).
"""
import json
import os
import subprocess
import sys
import threading
import time

ROOT = os.path.dirname(os.path.dirname(os.path.abspath(__file__)))
COST = {"C20": 150, "C07": 80, "C08": 70, "C16": 60, "C12": 45, "C02": 40, "C11": 40, "C14": 25}


def sh(cmd, cwd=None, env=None, timeout=7200):
    p = subprocess.run(cmd, shell=True, cwd=cwd, env=env, capture_output=True, text=True, timeout=timeout)
    return p.returncode, p.stdout + p.stderr


def opt(name, default):
    return sys.argv[sys.argv.index(name) + 1] if name in sys.argv else default


def main():
    lanes, jobs, tier = int(opt("--lanes", 3)), opt("--jobs", "5"), opt("--tier", "quick")
    want = [a for a in sys.argv[1:] if a.startswith("C") and len(a) == 3]
    seeds = {}
    for d in sorted(os.listdir(os.path.join(ROOT, "seeded"))):
        pid = d.split("_")[0]
        if os.path.exists(os.path.join(ROOT, "seeded", d, "patch.diff")) and (not want or pid in want):
            seeds.setdefault(pid, []).append(d)
    queue = sorted(seeds, key=lambda p: -COST.get(p, 10))
    lock = threading.Lock()
    results = {}

    def lane(k):
        wt = f"/tmp/regress_wt_{k}"
        sh(f"git -C /repo worktree remove --force {wt}")
        sh(f"git -C /repo worktree add -q --detach {wt} HEAD")
        try:
            while True:
                with lock:
                    if not queue:
                        return
                    pid = queue.pop(0)
                for d in seeds[pid]:
                    sh("git checkout -q -- . && git clean -qfd", cwd=wt)
                    patch = os.path.join(ROOT, "seeded", d, "patch.diff")
                    rc, out = sh(f"git apply {patch}", cwd=wt)
                    how = "exact"
                    if rc != 0:
                        rc, out = sh(f"git apply -C1 --recount {patch}", cwd=wt)
                        how = "reduced context"
                    if rc != 0:
                        with lock:
                            results[d] = {"applies": False, "note": out.strip()[-200:]}
                        print(f"{d}: patch does not apply to HEAD (evaluated on an earlier tree, see its meta.json)", flush=True)
                        continue
                    meta = json.load(open(os.path.join(ROOT, "seeded", d, "meta.json")))
                    t = "thorough" if "thorough" in str(meta.get("final", "")) and tier == "quick" else tier
                    env = dict(os.environ, CGV_REPO=wt, CGV_NO_EVIDENCE="1", CGV_JOBS=jobs)
                    t0 = time.time()
                    rc, out = sh(f"./check {pid} --tier {t}", cwd=ROOT, env=env)
                    vio = [ln for ln in out.split("\n") if ln.startswith("VIOLATION")]
                    r = {"applies": True, "how": how, "tier": t, "exit": rc, "violation_lines": len(vio), "caught": rc == 1 and bool(vio), "wall": round(time.time() - t0)}
                    with lock:
                        results[d] = r
                        json.dump(results, open(os.path.join(ROOT, "out", "regress.json"), "w"), indent=1, sort_keys=True)
                    print(f"{d}: tier={t} exit={rc} {'CAUGHT' if r['caught'] else 'NOT CAUGHT'} ({r['wall']} s)", flush=True)
        finally:
            sh(f"git -C /repo worktree remove --force {wt}")

    th = [threading.Thread(target=lane, args=(k,)) for k in range(lanes)]
    [t.start() for t in th]
    [t.join() for t in th]
    sh("git -C /repo worktree prune")
    bad = sorted(d for d, r in results.items() if r.get("applies") and not r["caught"])
    na = sorted(d for d, r in results.items() if not r.get("applies"))
    print(f"regress: {len(results)} seeds, {sum(1 for r in results.values() if r.get('caught'))} caught, not caught: {bad}, not applicable to HEAD: {na}")
    return 1 if bad else 0


if __name__ == "__main__":
    sys.exit(main())
