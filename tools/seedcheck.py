#!/usr/bin/env python3
"""Verify a sub-agent's seeded change and run the checks against it.

usage: tools/seedcheck.py /tmp/seed/C05 a [--all] [--tier quick]
  1. scratch worktree of /repo HEAD under /tmp: baseline test pass-list, demo exits 0
  2. apply patch there: same tests pass, demo exits non-zero
  3. apply the patch to /repo itself, run ./check <id> (and with --all every other check), undo (git checkout -- .)
  4. store under /verif/seeded/<id>_<x>/ : patch.diff, demo.py, meta.json (+ what was run and what each check said)
"""
import json
import os
import re
import shutil
import subprocess
import sys

PY = "/venv/bin/python"


def sh(cmd, cwd=None, env=None, timeout=3600):
    p = subprocess.run(cmd, shell=True, cwd=cwd, env=env, capture_output=True, text=True, timeout=timeout)
    return p.returncode, p.stdout + p.stderr


def passed_tests(wt):
    rc, out = sh(f"{PY} -m pytest -q -p no:cacheprovider -rA tests", cwd=wt)
    return sorted(set(re.findall(r"^PASSED (\S+)", out, re.M))), out.strip().split("\n")[-1]


def main():
    seed_dir, x = sys.argv[1], sys.argv[2]
    run_all = "--all" in sys.argv
    tier = sys.argv[sys.argv.index("--tier") + 1] if "--tier" in sys.argv else "quick"
    pid = os.path.basename(seed_dir.rstrip("/"))
    patch = os.path.join(seed_dir, f"patch_{x}.diff")
    demo = os.path.join(seed_dir, f"demo_{x}.py")
    meta = json.load(open(os.path.join(seed_dir, f"meta_{x}.json"))) if os.path.exists(os.path.join(seed_dir, f"meta_{x}.json")) else {}
    wt = f"/tmp/sv_{pid}_{x}"
    sh(f"git -C /repo worktree remove --force {wt}")
    rc, out = sh(f"git -C /repo worktree add -q {wt} HEAD")
    res = {"property": pid, "variant": x}
    try:
        env = dict(os.environ, PYTHONPATH=wt)
        shutil.copy(demo, os.path.join(wt, "demo.py"))
        base, bl = passed_tests(wt)
        rc0, o0 = sh(f"{PY} demo.py", cwd=wt, env=env, timeout=900)
        rca, oa = sh(f"git apply {patch}", cwd=wt)
        if rca != 0:
            res["error"] = "patch does not apply: " + oa[-300:]
            print(json.dumps(res, indent=1))
            return 1
        mut, ml = passed_tests(wt)
        rc1, o1 = sh(f"{PY} demo.py", cwd=wt, env=env, timeout=900)
        res.update({"baseline_tests": bl, "patched_tests": ml, "tests_still_pass": set(base) <= set(mut), "demo_clean_exit": rc0, "demo_patched_exit": rc1,
                    "demo_patched_tail": o1.strip()[-300:]})
        res["valid_seed"] = bool(res["tests_still_pass"] and rc0 == 0 and rc1 != 0)
    finally:
        sh(f"git -C /repo worktree remove --force {wt}")
    if not res.get("valid_seed"):
        print(json.dumps(res, indent=1))
        return 1
    use_wt = "--worktree" in sys.argv
    checks = {}
    if use_wt:
        # run the checks against a scratch worktree with the patch applied (CGV_REPO), leaving /repo alone
        sh(f"git -C /repo worktree remove --force {wt}")
        sh(f"git -C /repo worktree add -q {wt} HEAD")
        rca, oa = sh(f"git apply {patch}", cwd=wt)
        assert rca == 0, oa
        try:
            rc, out = sh(f"CGV_REPO={wt} CGV_NO_EVIDENCE=1 ./check {pid} --tier {tier}", cwd="/verif", timeout=7200)
            vio = re.findall(r"^VIOLATION property=(\S+) replay=(\S+)\n\s+what: (.*)$", out, re.M)
            checks[pid] = {"exit": rc, "violations": [v[2][:300] for v in vio], "summary": out.strip().split("\n")[-1][:300]}
        finally:
            sh(f"git -C /repo worktree remove --force {wt}")
    # run the checks against /repo with the patch applied
    if not use_wt:
        st, _ = sh("git -C /repo status --porcelain")
        rca, oa = sh(f"git -C /repo apply {patch}")
        assert rca == 0, oa
    try:
        if use_wt:
            raise StopIteration
        ids = [pid]
        if run_all:
            man = json.load(open("/verif/MANIFEST.json"))
            ids += [c["property_id"] for c in man["checks"] if c["property_id"] != pid]
        for i in ids:
            rc, out = sh(f"./check {i} --tier {tier}", cwd="/verif", timeout=7200)
            vio = re.findall(r"^VIOLATION property=(\S+) replay=(\S+)\n\s+what: (.*)$", out, re.M)
            checks[i] = {"exit": rc, "violations": [v[2][:300] for v in vio], "summary": out.strip().split("\n")[-1][:300]}
    except StopIteration:
        pass
    finally:
        if not use_wt:
            sh("git -C /repo checkout -- .")
    res["checks"] = checks
    res["caught_by_own_check"] = checks[pid]["exit"] == 1
    res["caught_by"] = [i for i, c in checks.items() if c["exit"] == 1]
    dst = f"/verif/seeded/{pid}_{x}"
    os.makedirs(dst, exist_ok=True)
    shutil.copy(patch, os.path.join(dst, "patch.diff"))
    shutil.copy(demo, os.path.join(dst, "demo.py"))
    meta.update({"breaks_property": pid, "verification": res,
                 "what_was_run": f"scratch worktree of /repo HEAD: pytest tests (pass list compared), demo.py clean/patched; then " + ("the patch applied in a scratch worktree and `CGV_REPO=<worktree> ./check <id> --tier " + tier + "`" if use_wt else f"`git -C /repo apply patch.diff; ./check <id> --tier {tier}; git -C /repo checkout -- .`")})
    prev = json.load(open(os.path.join(dst, "meta.json"))) if os.path.exists(os.path.join(dst, "meta.json")) else {}
    meta["first_run_quick"] = prev.get("first_run_quick") or ("caught" if res["caught_by_own_check"] else "missed")
    json.dump(meta, open(os.path.join(dst, "meta.json"), "w"), indent=1)
    print(json.dumps({k: res[k] for k in ("property", "variant", "valid_seed", "caught_by_own_check", "caught_by")}, indent=0))
    for i, c in checks.items():
        print(" ", i, c["exit"], c["violations"][:2] or c["summary"])
    return 0


if __name__ == "__main__":
    sys.exit(main())
