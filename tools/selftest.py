#!/usr/bin/env python3
"""Self-test: apply hand-written source mutants (DESIGN.md appendix A) one at a time to a scratch worktree of /repo HEAD
(outside /repo and /verif, removed afterwards), run the check of the property each one breaks against it (CGV_REPO), restore.  Reports which mutants are caught.

usage: tools/selftest.py [Cxx ...] [--tier quick]      (no ids = all)
Each mutant is (property, file, old text, new text); the old text must occur exactly once.
"""
import json
import os
import re
import subprocess
import sys

M = [
    # ---- C01
    ("C01", "circuitgraph/sat.py", "                formula.append([variables.id(n), variables.id(f)])\n            formula.append([-variables.id(n)] + [-variables.id(f) for f in c.fanin(n)])",
     "                formula.append([variables.id(n), variables.id(f)])\n            formula.append([-variables.id(n)] + [variables.id(f) for f in c.fanin(n)])", "nand final clause polarity"),
    ("C01", "circuitgraph/sat.py", "            while len(nets) > 2:", "            while len(nets) > 3:", "parity chain stops early (4+ operands)"),
    ("C01", "circuitgraph/sat.py", "        if val:\n            formula.append([variables.id(n)])", "        if val is True:\n            formula.append([variables.id(n)])", "assumption 1 (int) treated as False"),
    ("C01", "circuitgraph/sat.py", "        return {n: model[variables.id(n) - 1] > 0 for n in c.nodes()}", "        return {n: model[variables.id(n) - 1] >= 0 for n in c.nodes()}", "model readback (no effect expected: equivalent) "),
    ("C01", "circuitgraph/sat.py", "        elif n_type in [\"nand\", \"nor\", \"xnor\"] and len(c.fanin(n)) == 1:\n            n_type = \"not\"", "        elif n_type in [\"nand\", \"nor\"] and len(c.fanin(n)) == 1:\n            n_type = \"not\"", "1-input xnor not demoted"),
    # ---- C02
    ("C02", "circuitgraph/parsing/verilog.py", "        a0 = self.add_node(f\"mux_a0_{io}\", \"and\", fanin=[n, items[2]], uid=True)", "        a0 = self.add_node(f\"mux_a0_{io}\", \"and\", fanin=[n, items[1]], uid=True)", "ternary false branch picks items[1]"),
    ("C02", "circuitgraph/parsing/verilog.lark", "?xnor_gate: xor \"~^\" and\n          | xor \"^~\" and", "?xnor_gate: xor \"~^\" and\n          | and \"^~\" xor", "^~ becomes right-associative"),
    ("C02", "circuitgraph/parsing/verilog.py", "        if not self.outputs <= self.io:", "        if not self.outputs <= self.io | self.inputs:", "output port check relaxed"),
    ("C02", "circuitgraph/parsing/verilog.lark", "constant_one: \"1'b1\"\n            | \"1'h1\"", "constant_one: \"1'b1\"\n\nconstant_oneh: \"1'h1\"", "skip"),
    # ---- C03
    ("C03", "circuitgraph/io.py", "                    if c.type(n) in [\"xnor\", \"nor\", \"nand\"]:\n                        insts.append(f\"assign {n} = ~({fanin})\")", "                    if c.type(n) in [\"xnor\", \"nor\"]:\n                        insts.append(f\"assign {n} = ~({fanin})\")", "behavioral nand written without inversion"),
    ("C03", "circuitgraph/io.py", "                io += [f\".{n}({driven})\"]\n            except KeyError:", "                io += [f\".{n}({name}.{n})\"]\n            except KeyError:", "bb output pin printed as pin node"),
    ("C03", "circuitgraph/io.py", "        elif c.type(n) in [\"0\", \"1\", \"x\"]:\n            insts.append(f\"assign {n} = 1'b{c.type(n)}\")", "        elif c.type(n) in [\"0\", \"1\", \"x\"]:\n            insts.append(f\"assign {n} = 1'b{c.type(n) if c.type(n) != 'x' else '0'}\")", "x constant written as 0"),
    # ---- C04
    ("C04", "circuitgraph/tx.py", "    m.add(\"sat\", \"or\" if len(endpoints) > 1 else \"buf\", output=True)", "    m.add(\"sat\", \"or\" if len(endpoints) > 2 else \"buf\", output=True)", "2 endpoints -> buf (ValueError)"),
    ("C04", "circuitgraph/tx.py", "        m.add(f\"dif_{n}\", \"xor\", fanin=[f\"c0_{n}\", f\"c1_{n}\"], fanout=\"sat\")", "        m.add(f\"dif_{n}\", \"xor\" if len(endpoints) < 3 else \"or\", fanin=[f\"c0_{n}\", f\"c1_{n}\"], fanout=\"sat\")", "compare with or for >=3 endpoints"),
    ("C04", "circuitgraph/tx.py", "        startpoints = c0.startpoints() & c1.startpoints()", "        startpoints = c0.startpoints() | c1.startpoints()", "default startpoints union"),
    # ---- C05
    ("C05", "circuitgraph/tx.py", "        \"nor\": \"or\",\n        \"xor\": \"xor\",", "        \"nor\": \"nor\",\n        \"xor\": \"xor\",", "gatemap nor->nor"),
    ("C05", "circuitgraph/tx.py", "        while len(ck.fanout(n)) > k:", "        while len(ck.fanout(n)) > k + 1:", "limit_fanout off by one"),
    ("C05", "circuitgraph/tx.py", "            q = c_reg.add(f\"{n}{q_suffix}{i}\", \"buf\", uid=True, fanout=fanout)", "            q = c_reg.add(f\"{n}{q_suffix}{i}\", \"not\" if len(fanout) > 2 else \"buf\", uid=True, fanout=fanout)", "insert_registers inverts wide fanout"),
    # ---- C06
    ("C06", "circuitgraph/circuit.py", "        for bb_name, bb in sc.blackboxes.items():\n            self.blackboxes[f\"{name}_{bb_name}\"] = bb\n\n        # make connections", "        for bb_name, bb in sc.blackboxes.items():\n            self.blackboxes[bb_name] = bb\n\n        # make connections", "sub-blackboxes not prefixed"),
    ("C06", "circuitgraph/circuit.py", "        # remove blackbox\n        self.blackboxes.pop(name)", "        # remove blackbox\n        if c.blackboxes:\n            self.blackboxes.pop(name)", "filled instance stays unless child has boxes"),
    ("C06", "circuitgraph/tx.py", "            g.nodes[n][\"type\"] = \"buf\"\n            g.nodes[n][\"output\"] = True\n            bb_pins.append(n)", "            g.nodes[n][\"type\"] = \"buf\"\n            g.nodes[n][\"output\"] = len(list(g.predecessors(n))) > 0\n            bb_pins.append(n)", "strip_blackboxes: unconnected input pin not an output"),
    # ---- C07
    ("C07", "circuitgraph/circuit.py", "            if t in [\"bb_input\", \"buf\", \"not\"]:\n                if len(self.fanin(v)) + len(us) > 1:", "            if t in [\"buf\", \"not\"]:\n                if len(self.fanin(v)) + len(us) > 1:", "bb_input fan-in limit dropped"),
    ("C07", "circuitgraph/circuit.py", "                if len(self.fanout(u)) + len(vs) > 1:", "                if len(self.fanout(u)) + len(vs) > 2:", "bb_output may drive two"),
    ("C07", "circuitgraph/circuit.py", "        while f\"{n}_{i}\" in self.graph or f\"{n}_{i}\" in blocked:\n            if i < 10:", "        while f\"{n}_{i}\" in self.graph and f\"{n}_{i}\" not in blocked:\n            if i < 10:", "uid ignores graph when blocked empty"),
    # ---- C08
    ("C08", "circuitgraph/sat.py", "        solver.add_clause([-model[variables.id(n) - 1] for n in startpoints])", "        solver.add_clause([-model[variables.id(n) - 1] for n in c.inputs()])", "blocking clause forgets bb outputs"),
    ("C08", "circuitgraph/props.py", "    return count / (2 ** len(subc.startpoints()))", "    return count / (2 ** len(c.startpoints()))", "probability divided by all startpoints"),
    ("C08", "circuitgraph/sat.py", "            f\"c ind {enc_inps} 0\\np cnf {formula.nv} \"", "            f\"c ind {enc_inps} 0\\np cnf {len(c)} \"", "DIMACS nv = number of nodes"),
    # ---- C09
    ("C09", "circuitgraph/tx.py", "                uc.connect(f\"{k}_{prefix}_{itr-1}\", f\"{v}_{prefix}_{itr}\")", "                uc.connect(f\"{k}_{prefix}_{max(itr-2, 0) if itr > 2 else itr-1}\", f\"{v}_{prefix}_{itr}\")", "step >=3 wired to itr-2"),
    ("C09", "circuitgraph/tx.py", "        uc.set_output(io_map[state_output], add_flop_outputs)", "        uc.set_output(io_map[state_output][:-1], add_flop_outputs)", "last step flop output never exposed"),
    ("C09", "circuitgraph/tx.py", "            for k, v in initial_values.items():\n                uc.set_type(io_map[f\"{k}_{reg_q_port}\"][0], v)", "            for k, v in initial_values.items():\n                uc.set_type(io_map[f\"{k}_{reg_q_port}\"][-1], v)", "dict initial values applied to last step"),
    # ---- C10
    ("C10", "circuitgraph/tx.py", "                is_one = t.add(\n                    f\"{p}_is_1\", \"and\", fanout=one_not_in_fi, fanin=p, uid=True\n                )", "                is_one = t.add(\n                    f\"{p}_is_1\", \"or\", fanout=one_not_in_fi, fanin=p, uid=True\n                )", "is_1 uses or"),
    ("C10", "circuitgraph/tx.py", "        elif c.type(n) in [\"0\", \"1\"]:\n            t.add(mapping[n], \"0\", output=c.is_output(n), allow_redefinition=True)", "        elif c.type(n) in [\"0\", \"1\"]:\n            t.add(mapping[n], c.type(n), output=c.is_output(n), allow_redefinition=True)", "constant 1 mapped to X=1"),
    # ---- C11
    ("C11", "circuitgraph/tx.py", "    for o in range(cg.utils.clog2(len(startpoints) + 1)):", "    for o in range(cg.utils.clog2(len(startpoints)) or 1):", "popcount bits clog2(n) (boundary at powers of two)"),
    ("C11", "circuitgraph/props.py", "                influences[s] = mc(c, s, n) / (2 ** len(sp))", "                influences[s] = mc(c, s, n) / (2 ** len(c.startpoints()))", "influence divided by all startpoints"),
    ("C11", "circuitgraph/props.py", "    sen = len(sp)\n    s = cg.tx.sensitivity_transform(c, n)", "    sen = len(sp) - 1 if len(sp) > 3 else len(sp)\n    s = cg.tx.sensitivity_transform(c, n)", "sensitivity search starts below max for >3 startpoints"),
    # ---- C12
    ("C12", "circuitgraph/circuit.py", "            if all(fi in visited for fi in self.fanin(n) & reachable):\n                for fo in self.fanout(n):", "            if any(fi in visited for fi in self.fanin(n) & reachable) or not self.fanin(n) & reachable:\n                for fo in self.fanout(n):", "depth gate all->any (equivalent result expected? may differ)"),
    ("C12", "circuitgraph/circuit.py", "                if len(merged_cut) <= k:", "                if len(merged_cut) <= k + 1:", "kcuts allows k+1"),
    ("C12", "circuitgraph/circuit.py", "            return (set(ns) | self.transitive_fanout(ns)) & self.endpoints()", "            return self.transitive_fanout(ns) & self.endpoints()", "endpoints(ns) forgets ns itself"),
    ("C12", "circuitgraph/props.py", "        levels[n] = max((levels[fi] for fi in c.fanin(n)), default=-1) + 1", "        levels[n] = min((levels[fi] for fi in c.fanin(n)), default=-1) + 1", "levelize uses min"),
    # ---- C13
    ("C13", "circuitgraph/logic.py", "    for sel in product(*sels[::-1]):", "    for sel in product(*sels):", "mux select order reversed"),
    ("C13", "circuitgraph/logic.py", "        while len(ns) < aw:\n            ns += [\"tie0\"]", "        while len(ns) < aw - 1:\n            ns += [\"tie0\"]", "popcount padding short on one side"),
    ("C13", "circuitgraph/utils.py", "    while num > shifter:", "    while num >= shifter:", "clog2 off by one at powers of two"),
    ("C13", "circuitgraph/utils.py", "        s = \"\".join(\"1\" if v else \"0\" for v in reversed(b))", "        s = \"\".join(\"1\" if v else \"0\" for v in b)", "bin_to_int ignores lend"),
    # ---- C14
    ("C14", "circuitgraph/parsing/fast_verilog.py", "        elif n1 in [\"1'b1\", \"1'h1\", \"1'd1\"]:\n            all_edges.append((tie_1, n0))", "        elif n1 in [\"1'b1\", \"1'd1\"]:\n            all_edges.append((tie_1, n0))", "1'h1 in assign not a constant"),
    ("C14", "circuitgraph/parsing/fast_verilog.py", "                if net == \"1'b1\":\n                    net = tie_1\n                elif net == \"1'b0\":\n                    net = tie_0", "                if net == \"1'b1\":\n                    net = tie_1\n                elif net == \"1'b0\":\n                    net = tie_1", "constant 0 on a blackbox pin becomes 1"),
    # ---- C15
    ("C15", "circuitgraph/io.py", "        if gate in (\"buff\", \"BUFF\"):\n            gate = \"buf\"", "        if gate in (\"buff\",):\n            gate = \"buf\"", "BUFF upper-case not mapped"),
    ("C15", "circuitgraph/io.py", "        elif c.type(n) in [\"1\"]:\n            insts.append(f\"{n} = XNOR({const_inp}, {const_inp})\")", "        elif c.type(n) in [\"1\"]:\n            insts.append(f\"{n} = XOR({const_inp}, {const_inp})\")", "constant 1 written as XOR"),
    ("C15", "circuitgraph/io.py", "        c.add_blackbox(dff, f\"{net}_dff\", connections={\"D\": inputs, \"Q\": net})", "        c.add_blackbox(dff, f\"{net}_dff\", connections={\"D\": net if inputs == net else inputs, \"Q\": net})", "no-op (skip)"),
    # ---- C16
    ("C16", "circuitgraph/circuit.py", "                if not self.is_output(fi) and len(self.fanout(fi)) == 1:", "                if len(self.fanout(fi)) == 1:", "output check dropped for fan-in"),
    ("C16", "circuitgraph/circuit.py", "            if self.type(n) not in [\"bb_input\"]\n            and (inputs or", "            if (inputs or", "bb_input exemption dropped"),
    # ---- C17
    ("C17", "circuitgraph/tx.py", "                if len(dom_tree[fi]) > 1:\n                    frontier.put(fi)", "                if len(dom_tree[fi]) > 2:\n                    frontier.put(fi)", "supergate frontier threshold"),
    ("C17", "circuitgraph/tx.py", "            superc.add_blackbox(bb, sg_name, {i: i for i in supergate.io()})", "            superc.add_blackbox(bb, sg_name, {i: i for i in supergate.inputs()})", "super-circuit output pin unconnected"),
    # ---- C18
    ("C18", "circuitgraph/tx.py", "    for i in range(len(feedback) + 1):", "    for i in range(max(len(feedback), 1)):", "one copy too few"),
    ("C18", "circuitgraph/tx.py", "    feedback = {e[0] for e in approx_min_fas(c.graph)}", "    feedback = {e[1] for e in approx_min_fas(c.graph)}", "feedback set = edge heads"),
    # ---- C20
    ("C20", "circuitgraph/utils.py", "        if c.type(g) in single_input_types and len(c.fanin(g)) > 1:", "        if c.type(g) in single_input_types and len(c.fanin(g)) > 2:", "multi-driver threshold"),
    ("C20", "circuitgraph/utils.py", "            if len(c.fanout(g)) > 1:\n                handle(f\"'{c.type(g)}' node '{g}' has fanout greater than 1\")", "            if len(c.fanout(g)) > 1 and fail_fast:\n                handle(f\"'{c.type(g)}' node '{g}' has fanout greater than 1\")", "rule skipped when fail_fast off"),
    ("C20", "circuitgraph/utils.py", "                if t != \"bb_output\":", "                if t not in (\"bb_output\", \"buf\"):", "mistyped output pin tolerated if buf"),
]


def sh(cmd, cwd=None, timeout=7200):
    p = subprocess.run(cmd, shell=True, cwd=cwd, capture_output=True, text=True, timeout=timeout)
    return p.returncode, p.stdout + p.stderr


def main():
    ids = [a for a in sys.argv[1:] if re.match(r"C\d+", a)]
    tier = sys.argv[sys.argv.index("--tier") + 1] if "--tier" in sys.argv else "quick"
    WT = "/tmp/selftest_wt"
    sh(f"git -C /repo worktree remove --force {WT}")
    rc, st = sh(f"git -C /repo worktree add -q {WT} HEAD")
    results = []
    for pid, path, old, new, label in M:
        if ids and pid not in ids:
            continue
        if "skip" in label:
            continue
        full = os.path.join(WT, path)
        src = open(full).read()
        if src.count(old) != 1:
            results.append((pid, label, "MUTANT-NOT-APPLICABLE", src.count(old)))
            print(results[-1], flush=True)
            continue
        try:
            open(full, "w").write(src.replace(old, new))
            rc_t, out_t = sh("/venv/bin/python -m pytest -q -p no:cacheprovider tests", cwd=WT)
            tests = out_t.strip().split("\n")[-1]
            rc, out = sh(f"CGV_REPO={WT} CGV_NO_EVIDENCE=1 ./check {pid} --tier {tier}", cwd="/verif")
            what = re.findall(r"what: (.*)", out)
            results.append((pid, label, {0: "MISSED", 1: "CAUGHT", 2: "HARNESS-ERROR"}.get(rc, rc), tests[:40], (what[:1] or [out.strip().split("\n")[-1]])[0][:160]))
        finally:
            sh(f"git -C {WT} checkout -- .")
        print(results[-1], flush=True)
    sh(f"git -C /repo worktree remove --force {WT}")
    caught = sum(1 for r in results if r[2] == "CAUGHT")
    print(f"caught {caught} of {len([r for r in results if r[2] != 'MUTANT-NOT-APPLICABLE'])}")
    os.makedirs("/verif/out", exist_ok=True)
    json.dump(results, open("/verif/out/selftest.json", "w"), indent=1)


if __name__ == "__main__":
    main()
