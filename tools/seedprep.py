#!/usr/bin/env python3
"""Prepare a round of independent seeding: one scratch worktree of /repo HEAD per claimed property under /tmp/seed<R>/<id>/
with PROPERTY.txt (the property text + the one-line summaries of the changes already collected in /verif/seeded) and
/tmp/seed<R>/INSTRUCTIONS.txt.  The sub-agents see nothing of /verif.  Maintenance tool, not part of any check.

usage: tools/seedprep.py <round-number> <letter1> <letter2>      e.g. tools/seedprep.py 7 m n
       tools/seedprep.py <round-number> --remove                 remove the worktrees again
"""
import json
import os
import re
import subprocess
import sys

ROOT = os.path.dirname(os.path.dirname(os.path.abspath(__file__)))


def sh(cmd):
    return subprocess.run(cmd, shell=True, capture_output=True, text=True)


def main():
    rnd = sys.argv[1]
    base = f"/tmp/seed{rnd}"
    man = json.load(open(os.path.join(ROOT, "MANIFEST.json")))
    ids = [c["property_id"] for c in man["checks"]]
    if "--remove" in sys.argv:
        for i in ids:
            sh(f"git -C /repo worktree remove --force {base}/{i}")
        sh("git -C /repo worktree prune")
        sh(f"rm -rf {base}")
        return
    a, b = sys.argv[2], sys.argv[3]
    props = {json.loads(l)["id"]: json.loads(l) for l in open(os.path.join(ROOT, "properties.jsonl"))}

    os.makedirs(base, exist_ok=True)
    for i in ids:
        sh(f"git -C /repo worktree remove --force {base}/{i}")
        r = sh(f"git -C /repo worktree add -q --detach {base}/{i} HEAD")
        assert r.returncode == 0, r.stderr
        p = props[i]
        txt = [f"PROPERTY {i}: {p['title']}", "", f"Statement: {p['statement']}", "",
               f"Quantified over: {p['quantifier']['text']}", "",
               "Where the behaviour lives: files " + str(p["anchors"]["files"]) + "; mechanisms: " + "; ".join(f"{m['name']} ({m['where']})" for m in p["anchors"]["mechanism"]), "",
               "Changes ALREADY COLLECTED for this property by other developers (do NOT repeat these or close variants; pick different functions / mechanisms / triggers):"]
        for d in sorted(os.listdir(os.path.join(ROOT, "seeded"))):
            if d.startswith(i + "_"):
                m = json.load(open(os.path.join(ROOT, "seeded", d, "meta.json")))
                clip = lambda s, n: re.sub(r"\s+", " ", str(s))[:n]
                txt.append(f"  - {clip(m.get('summary'), 170)} (needs: {clip(m.get('needs'), 110)})")
        open(f"{base}/{i}/PROPERTY.txt", "w").write("\n".join(txt) + "\n")
    ins = open(os.path.join(ROOT, "tools", "seed_instructions.txt")).read()
    ins = ins.replace("{BASE}", base).replace("{A}", a).replace("{B}", b)
    open(f"{base}/INSTRUCTIONS.txt", "w").write(ins)
    print("ready:", base, len(ids), "worktrees")


if __name__ == "__main__":
    main()
