#!/bin/bash
# Build the overlay venv used by every check: /venv (repo deps) + z3-solver + crosshair-tool from the offline wheelhouse.
set -e
cd "$(dirname "$0")"
V=/verif/.venv
if [ ! -x $V/bin/python ] || ! $V/bin/python -c "import z3, networkx, lark" 2>/dev/null; then
  rm -rf $V
  /venv/bin/python -m venv $V
  SP=$($V/bin/python -c "import site; print(site.getsitepackages()[0])")
  echo "import site; site.addsitedir('/venv/lib/python3.12/site-packages')" > $SP/_venv_overlay.pth
  $V/bin/python -m pip install -q --no-index --find-links /opt/veriftools/wheels z3-solver
fi
if ! $V/bin/python -c "import crosshair" 2>/dev/null; then
  $V/bin/python -m pip install -q --no-index --find-links /opt/veriftools/wheels crosshair-tool || echo "crosshair-tool not installable (E3 will report inconclusive)"
fi
$V/bin/python -c "import z3, networkx, lark, circuitgraph; print('setup ok: z3', z3.get_version_string(), 'circuitgraph from', circuitgraph.__file__)"
