"""Immutable snapshots of circuits ("Net") and plain-data circuit specs.

A Net is read from a Circuit through networkx directly (never through the
Circuit accessors under check) and is what every reference encoding is built
from.  Specs are JSON-able and are what families, evidence samples and replay
files contain.
"""
import networkx as nx


class Net:
    __slots__ = ("name", "types", "outs", "preds", "succs", "bbs", "order")

    def __init__(self, name, types, outs, preds, bbs):
        self.name = name
        self.types = dict(types)  # node -> type (None if missing)
        self.outs = set(outs)
        self.preds = {n: sorted(preds.get(n, ())) for n in self.types}
        self.succs = {n: [] for n in self.types}
        for v, ps in self.preds.items():
            for u in ps:
                self.succs[u].append(v)
        for n in self.succs:
            self.succs[n].sort()
        self.bbs = {k: (v[0], sorted(v[1]), sorted(v[2])) for k, v in bbs.items()}
        self.order = None

    # ------------------------------------------------------------------ ctor
    @staticmethod
    def of(c):
        g = c.graph
        types = {n: g.nodes[n].get("type") for n in g.nodes}
        outs = [n for n in g.nodes if g.nodes[n].get("output")]
        preds = {n: list(g.predecessors(n)) for n in g.nodes}
        bbs = {
            k: (b.name, list(b.input_set), list(b.output_set))
            for k, b in c.blackboxes.items()
        }
        return Net(c.name, types, outs, preds, bbs)

    @staticmethod
    def from_spec(s):
        types = {n: t for n, t, _ in s["nodes"]}
        outs = [n for n, _, o in s["nodes"] if o]
        preds = {}
        for u, v in s["edges"]:
            preds.setdefault(v, []).append(u)
        return Net(s.get("name", "circuit"), types, outs, preds, s.get("bbs", {}))

    def spec(self):
        return {
            "name": self.name,
            "nodes": [[n, self.types[n], n in self.outs] for n in sorted(self.types)],
            "edges": sorted([u, v] for v in self.types for u in self.preds[v]),
            "bbs": {k: [v[0], v[1], v[2]] for k, v in sorted(self.bbs.items())},
        }

    # --------------------------------------------------------------- queries
    def nodes(self):
        return sorted(self.types)

    def is_free(self, n):
        """free signal: input, bb_output, or undriven buf/not/bb_input/gate"""
        t = self.types[n]
        if t in ("input", "bb_output"):
            return True
        if t in ("0", "1", "x"):
            return False
        return not self.preds[n]

    def free(self):
        return [n for n in self.nodes() if self.is_free(n)]

    def inputs(self):
        return {n for n, t in self.types.items() if t == "input"}

    def outputs(self):
        return set(self.outs)

    def startpoints(self):
        return {n for n, t in self.types.items() if t in ("input", "bb_output")}

    def endpoints(self):
        return set(self.outs) | {n for n, t in self.types.items() if t == "bb_input"}

    def has_x(self):
        return any(t == "x" for t in self.types.values())

    def digraph(self):
        g = nx.DiGraph()
        g.add_nodes_from(self.types)
        for v, ps in self.preds.items():
            for u in ps:
                g.add_edge(u, v)
        return g

    def topo(self):
        if self.order is None:
            self.order = list(nx.lexicographical_topological_sort(self.digraph()))
        return self.order

    def is_acyclic(self):
        return nx.is_directed_acyclic_graph(self.digraph())

    def tfi(self, n):
        return nx.ancestors(self.digraph(), n)

    def same_graph(self, other, ignore_names=()):
        a, b = self.spec(), other.spec()
        return a["nodes"] == b["nodes"] and a["edges"] == b["edges"]


def build(spec):
    """Build a real Circuit from a spec, directly on networkx (not via Circuit.add)."""
    import circuitgraph as cg

    g = nx.DiGraph()
    for n, t, o in spec["nodes"]:
        g.add_node(n, type=t, output=bool(o))
    for u, v in spec["edges"]:
        g.add_edge(u, v)
    bbs = {
        k: cg.BlackBox(v[0], list(v[1]), list(v[2]))
        for k, v in spec.get("bbs", {}).items()
    }
    return cg.Circuit(name=spec.get("name", "circuit"), graph=g, blackboxes=bbs)


def mkspec(name, nodes, edges=None, bbs=None):
    """nodes: list of (name, type, fanin-list[, output]) -> spec"""
    ns, es = [], []
    for item in nodes:
        n, t, fi = item[0], item[1], item[2]
        o = bool(item[3]) if len(item) > 3 else False
        ns.append([n, t, o])
        for u in fi:
            es.append([u, n])
    for e in edges or []:
        es.append(list(e))
    return {"name": name, "nodes": ns, "edges": es, "bbs": bbs or {}}


def rename(spec, f):
    """apply name mapping function f to every node of a spec (blackbox pins keep inst.pin form)"""
    return {
        "name": spec["name"],
        "nodes": [[f(n), t, o] for n, t, o in spec["nodes"]],
        "edges": [[f(u), f(v)] for u, v in spec["edges"]],
        "bbs": dict(spec.get("bbs", {})),
    }


ZERO_IN = ("input", "0", "1", "x", "bb_output")
ONE_IN = ("buf", "not", "bb_input")
MULTI_IN = ("and", "nand", "or", "nor", "xor", "xnor")


def wellformed(net, undriven=True, unloaded=False, single_input_gates=False):
    """Reference reading of the rules utils.lint documents (concrete). Returns list of broken rules."""
    bad = []
    for n in net.nodes():
        t = net.types[n]
        fi, fo = net.preds[n], net.succs[n]
        if t not in ZERO_IN + ONE_IN + MULTI_IN:
            bad.append(("type", n))
            continue
        if "." in n and n.split(".")[0] not in net.bbs:
            bad.append(("dotted", n))
        if t in ZERO_IN and fi:
            bad.append(("fanin-on-source", n))
        if t == "bb_output" and (len(fo) > 1 or any(net.types[w] != "buf" for w in fo)):
            bad.append(("bb_output-load", n))
        if t in ONE_IN and len(fi) > 1:
            bad.append(("multi-driver", n))
        if undriven and t in ONE_IN + MULTI_IN and not fi:
            bad.append(("undriven", n))
        if single_input_gates and t in MULTI_IN and len(fi) < 2:
            bad.append(("single-input", n))
        if unloaded and n not in net.outs and not fo:
            bad.append(("unloaded", n))
    for inst, (_, ins, outs) in net.bbs.items():
        for p in ins:
            if net.types.get(f"{inst}.{p}") != "bb_input":
                bad.append(("pin", f"{inst}.{p}"))
        for p in outs:
            if net.types.get(f"{inst}.{p}") != "bb_output":
                bad.append(("pin", f"{inst}.{p}"))
    return bad
