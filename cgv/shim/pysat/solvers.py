"""Stand-in for pysat.solvers: a z3-backed incremental SAT solver.

Fidelity points relied upon by the checks:
  * get_model() lists literals for variables 1..(max variable occurring in a clause
    given to the solver), exactly as python-sat does;
  * add_clause([]) makes the instance unsatisfiable;
  * every instance is logged in INSTANCES with its bootstrap clauses, the clauses
    added later (blocking clauses) and the models handed out, so that a harness can
    certify what the real loop enumerated.
"""
import z3

INSTANCES = []


class Cadical153:
    def __init__(self, bootstrap_with=None, **kwargs):
        self.s = z3.Solver()
        self.nv = 0
        self.vars = {}
        self.boot = []
        self.added = []
        self.models = []
        self.m = None
        self._booting = True
        for c in bootstrap_with or []:
            self.add_clause(c)
        self._booting = False
        INSTANCES.append(self)
        del INSTANCES[:-4]  # keep only the most recent instances (a harness that needs one reads it right after the call)

    def _v(self, i):
        v = self.vars.get(i)
        if v is None:
            v = self.vars[i] = z3.Bool(f"x{i}")
        return v

    def add_clause(self, clause, no_return=True):
        clause = [int(l) for l in clause]
        (self.boot if self._booting else self.added).append(clause)
        self.nv = max([abs(l) for l in clause] + [self.nv])
        if clause:
            self.s.add(z3.Or([self._v(l) if l > 0 else z3.Not(self._v(-l)) for l in clause]))
        else:
            self.s.add(z3.BoolVal(False))

    def solve(self, assumptions=()):
        lits = [self._v(l) if l > 0 else z3.Not(self._v(-l)) for l in assumptions]
        r = self.s.check(*lits)
        if r == z3.unknown:
            raise RuntimeError("stand-in solver: unknown")
        self.m = self.s.model() if r == z3.sat else None
        return r == z3.sat

    def get_model(self):
        if self.m is None:
            return None
        out = []
        for i in range(1, self.nv + 1):
            val = self.m.eval(self._v(i), model_completion=True)
            out.append(i if z3.is_true(val) else -i)
        self.models.append(out)
        return out

    def delete(self):
        pass

    def __enter__(self):
        return self

    def __exit__(self, *a):
        pass


Cadical = Cadical153
Glucose3 = Cadical153
Solver = Cadical153
