"""z3-backed stand-in for python-sat (only the API circuitgraph.sat uses)."""
__version__ = "cgv-standin"
