"""Stand-in for pysat.formula: IDPool and CNF with python-sat's observable behaviour."""


class IDPool:
    def __init__(self, start_from=1, occupied=()):
        self.top = start_from - 1
        self.obj2id = {}
        self.id2obj = {}

    def id(self, obj=None):
        if obj is None:
            self.top += 1
            return self.top
        if obj not in self.obj2id:
            self.top += 1
            self.obj2id[obj] = self.top
            self.id2obj[self.top] = obj
        return self.obj2id[obj]

    def obj(self, vid):
        return self.id2obj.get(vid)


class CNF:
    def __init__(self, from_clauses=None):
        self.nv = 0
        self.clauses = []
        for c in from_clauses or []:
            self.append(c)

    def append(self, clause):
        clause = list(clause)
        self.nv = max([abs(l) for l in clause] + [self.nv])
        self.clauses.append(clause)

    def extend(self, clauses):
        for c in clauses:
            self.append(c)

    def __iter__(self):
        return iter(self.clauses)

    def __len__(self):
        return len(self.clauses)
