"""Exact projected model counter reading the DIMACS file the real code writes.

Prints `s mc N`.  If CGV_DIMACS_OUT is set, the input file is copied there so the
harness can certify the instance itself.  XOR-clause lines (x...) are rejected:
use_xor_clauses mode is outside the claim.
"""
import os
import shutil
import sys

import z3


def parse(text):
    ind, clauses, header = None, [], None
    for line in text.split("\n"):
        s = line.strip()
        if not s:
            continue
        if s.startswith("c ind"):
            ind = [int(t) for t in s.split()[2:]]
            assert ind and ind[-1] == 0 or ind == [0], "c ind line not 0-terminated"
            ind = ind[:-1]
        elif s.startswith("c"):
            continue
        elif s.startswith("p cnf"):
            header = tuple(int(t) for t in s.split()[2:4])
        elif s.startswith("x"):
            raise SystemExit("xor clauses unsupported by stand-in")
        else:
            lits = [int(t) for t in s.split()]
            assert lits[-1] == 0, "clause not 0-terminated"
            clauses.append(lits[:-1])
    return ind, header, clauses


def count(ind, clauses):
    s = z3.Solver()
    v = {}

    def V(i):
        if i not in v:
            v[i] = z3.Bool(f"x{i}")
        return v[i]

    for c in clauses:
        s.add(z3.Or([V(l) if l > 0 else z3.Not(V(-l)) for l in c]) if c else z3.BoolVal(False))
    n = 0
    while s.check() == z3.sat:
        m = s.model()
        n += 1
        if not ind:
            break
        s.add(z3.Or([V(i) != m.eval(V(i), model_completion=True) for i in ind]))
    return n


if __name__ == "__main__":
    path = [a for a in sys.argv[1:] if not a.startswith("--")][-1]
    out = os.environ.get("CGV_DIMACS_OUT")
    if out:
        shutil.copyfile(path, out)
    ind, header, clauses = parse(open(path).read())
    print("c cgv approxmc stand-in (exact)")
    print(f"s mc {count(ind, clauses)}")
