"""Independent concrete evaluator (0 / 1 / 'x'), used only to replay solver counterexamples.

Deliberately written without sem.py: values are Python ints or the string 'x'.
"""


def _gate(t, vals):
    if t in ("and", "nand"):
        if any(v == 0 for v in vals):
            r = 0
        elif all(v == 1 for v in vals):
            r = 1
        else:
            r = "x"
    elif t in ("or", "nor"):
        if any(v == 1 for v in vals):
            r = 1
        elif all(v == 0 for v in vals):
            r = 0
        else:
            r = "x"
    elif t in ("xor", "xnor"):
        if any(v == "x" for v in vals):
            r = "x"
        else:
            r = sum(vals) % 2
    elif t in ("buf", "not", "bb_input"):
        (r,) = vals
    else:
        raise ValueError(t)
    if t in ("nand", "nor", "xnor", "not") and r != "x":
        r = 1 - r
    return r


def evaluate(net, free, override=None):
    """free: node -> 0/1/'x' for every free node of the (acyclic) Net"""
    val = {}
    for n in net.topo():
        t = net.types[n]
        if t in ("0", "1"):
            v = int(t)
        elif t == "x":
            v = "x"
        elif net.is_free(n):
            v = free[n]
        else:
            v = _gate(t, [val[p] for p in net.preds[n]])
        if override and n in override:
            v = override[n](v)
        val[n] = v
    return val


def consistent(net, V):
    """is the total Boolean valuation V consistent with every gate of net?"""
    for n in net.nodes():
        t = net.types[n]
        if t in ("0", "1"):
            if V[n] != int(t):
                return False
        elif net.is_free(n):
            continue
        else:
            if V[n] != _gate(t, [V[p] for p in net.preds[n]]):
                return False
    return True


def model_bits(model, vars_):
    """z3 model -> {name: 0/1} for a dict name -> z3 Bool"""
    import z3

    return {
        k: (1 if z3.is_true(model.eval(v, model_completion=True)) else 0)
        for k, v in vars_.items()
    }
