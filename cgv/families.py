"""Structure families (deterministic + seeded random). Everything is a JSON-able spec.

No Python sets are iterated here, so the enumeration order (and therefore the
shard assignment of a case) does not depend on PYTHONHASHSEED.
"""
import itertools
import random

from cgv.net import mkspec, rename

GATES2 = ["and", "nand", "or", "nor", "xor", "xnor"]
GATES = GATES2 + ["buf", "not"]


# --------------------------------------------------------------------- F-unit
def unit(t, k, out=True):
    ins = [(f"i{j}", "input", []) for j in range(k)]
    return mkspec(f"unit_{t}_{k}", ins + [("g", t, [f"i{j}" for j in range(k)], out)])


def f_unit(kmax=5, pairs=True):
    out = []
    for t in GATES:
        for k in range(1, (kmax if t in GATES2 else 1) + 1):
            out.append((("unit", t, k), unit(t, k)))
    if pairs:
        for t1, t2 in itertools.product(GATES2, GATES2):
            for k in (2, 3):
                ins = [(f"i{j}", "input", []) for j in range(k + 1)]
                nodes = ins + [
                    ("h", t2, [f"i{j}" for j in range(k)]),
                    ("g", t1, ["h"] + [f"i{j}" for j in range(1, k + 1)][: k - 1], True),
                ]
                out.append((("pair", t1, t2, k), mkspec(f"pair_{t1}_{t2}_{k}", nodes)))
    return out


# -------------------------------------------------------------------- F-shape
def f_shape():
    S = []

    def add(name, nodes):
        S.append((("shape", name), mkspec(name, nodes)))

    I = lambda *ns: [(n, "input", []) for n in ns]
    add("chain", I("a") + [("b", "not", ["a"]), ("c", "buf", ["b"]), ("d", "not", ["c"]), ("e", "buf", ["d"], True)])
    add("tree", I("a", "b", "c", "d") + [("p", "and", ["a", "b"]), ("q", "or", ["c", "d"]), ("r", "xor", ["p", "q"], True)])
    add("diamond", I("a", "s") + [("n", "nand", ["a", "s"]), ("l", "not", ["n"]), ("r", "xor", ["n", "s"]), ("o", "and", ["l", "r"], True)])
    add("diamond2", I("a", "b") + [("n", "xor", ["a", "b"]), ("l", "not", ["n"]), ("r", "buf", ["n"]), ("m", "nor", ["l", "r"]),
                                   ("l2", "and", ["m", "a"]), ("r2", "or", ["m", "b"]), ("o", "xnor", ["l2", "r2"], True)])
    add("branch_is_meet", I("a", "b") + [("n", "and", ["a", "b"]), ("p", "not", ["n"]), ("q", "or", ["n", "p"], True)])
    add("fan6", I("a", "b") + [("n", "xor", ["a", "b"])] + [(f"l{i}", ["buf", "not", "and", "or", "nand", "xnor"][i], ["n"] + (["a"] if i >= 2 else []), True) for i in range(6)])
    add("shared2", I("a", "b", "c") + [("m", "nand", ["a", "b"]), ("o1", "or", ["m", "c"], True), ("o2", "xor", ["m", "a"], True)])
    add("out_is_input", [("a", "input", [], True), ("b", "input", []), ("o", "and", ["a", "b"], True)])
    add("out_is_const", I("a") + [("k0", "0", [], True), ("k1", "1", [], True), ("o", "buf", ["a"], True)])
    add("const_feed", I("a", "b") + [("k0", "0", []), ("k1", "1", []), ("p", "and", ["a", "k1"]), ("q", "or", ["b", "k0"]), ("r", "xor", ["p", "q", "k1"], True), ("s", "nor", ["k0", "a"], True)])
    add("two_comp", I("a", "b", "c", "d") + [("p", "and", ["a", "b"], True), ("q", "xnor", ["c", "d"], True)])
    add("wide_parity", I("a", "b", "c", "d", "e", "f") + [("x", "xor", ["a", "b", "c", "d", "e", "f"], True), ("y", "xnor", ["a", "b", "c", "d", "e"], True), ("z", "xnor", ["x", "y", "a"], True)])
    add("internal_out", I("a", "b") + [("m", "and", ["a", "b"], True), ("o", "not", ["m"], True)])
    add("unused_input", I("a", "b", "u") + [("o", "or", ["a", "b"], True)])
    # outputs that are inverters / buffers of a constant; an inverter chain below a two-operand gate (dominator chains)
    add("const_inverted_out", I("a") + [("k0", "0", []), ("k1", "1", []), ("o1", "not", ["k0"], True), ("o2", "buf", ["k1"], True), ("o3", "not", ["k1"], True), ("o4", "and", ["a", "o1"], True), ("o5", "nor", ["o3", "a"], True)])
    add("chain_below_head", I("u", "v", "w") + [("h", "or", ["u", "v"]), ("n1", "buf", ["h"]), ("p", "not", ["n1"]), ("q", "xor", ["w", "u"]), ("y", "and", ["p", "q"], True)])
    add("chain3_below_head", I("u", "v", "w") + [("h", "nand", ["u", "v"]), ("n1", "not", ["h"]), ("n2", "buf", ["n1"]), ("n3", "not", ["n2"]), ("q", "or", ["w", "n3"]), ("y", "xnor", ["q", "w"], True)])
    add("stem_chain", I("u", "v", "w") + [("s", "and", ["u", "v"]), ("h", "or", ["s", "w"]), ("c1", "and", ["h", "s"]), ("c2", "or", ["c1", "s"]), ("y", "xor", ["c2", "w"], True)])
    add("single_in_gates", I("a") + [("p", "and", ["a"]), ("q", "nor", ["p"]), ("r", "xnor", ["q"]), ("s", "xor", ["r"]), ("t", "nand", ["s"]), ("o", "or", ["t"], True)])
    add("deep_reconv", I("a", "b", "c") + [("n1", "and", ["a", "b"]), ("n2", "or", ["n1", "c"]), ("n3", "xor", ["n1", "n2"]), ("n4", "nand", ["n2", "n3", "a"]), ("n5", "nor", ["n3", "n4"]), ("o", "xnor", ["n4", "n5", "n1"], True)])
    return S


# --------------------------------------------------------------------- F-rand
def rand_dag(rng, n_in=None, n_gates=None, max_arity=5, consts=None, types=GATES, name="rnd", feedthrough=True, wide=True):
    n_in = n_in or rng.randint(1, 4)
    n_gates = n_gates or rng.randint(2, 12)
    consts = rng.random() < 0.3 if consts is None else consts
    nodes = [(f"i{j}", "input", []) for j in range(n_in)]
    pool = [f"i{j}" for j in range(n_in)]
    if consts:
        for t in rng.sample(["0", "1"], rng.randint(1, 2)):
            nodes.append((f"k{t}", t, []))
            pool.append(f"k{t}")
    used = set()
    gates = []
    for g in range(n_gates):
        t = rng.choice(types)
        if t in ("buf", "not"):
            k = 1
        else:
            k = rng.choice([1, 2, 2, 2, 3, 3, 4, 5][: max(1, 3 + max_arity)])
            k = min(k, max_arity, len(pool))
            if wide and max_arity >= 5 and len(pool) >= 7 and rng.random() < 0.06:
                k = rng.randint(6, min(8, len(pool)))  # an occasional wide gate
        # bias to recent nodes so depth grows
        cand = pool[-6:] if rng.random() < 0.6 and len(pool) > 6 and k <= 5 else pool
        k = min(k, len(cand))
        fi = rng.sample(cand, k)
        used.update(fi)
        gates.append([f"g{g}", t, fi, False])
        pool.append(f"g{g}")
    for g in gates:
        if g[0] not in used or rng.random() < 0.15:
            g[3] = True
    # constants that ended up unused are dropped (keeps lint-clean incl. readers that drop them)
    nodes = [n for n in nodes if n[1] == "input" or n[0] in used]
    if feedthrough and rng.random() < 0.2:
        # a primary input that is also marked as an output (feed-through port)
        k = rng.randrange(n_in)
        nodes[k] = (nodes[k][0], "input", [], True)
    return mkspec(name, nodes + [tuple(g) for g in gates])


def f_rand(seed, count, **kw):
    out = []
    for i in range(count):
        rng = random.Random(f"cgv-{seed}-{i}")
        out.append((("rand", seed, i), rand_dag(rng, name=f"rnd{i}", **kw)))
    return out


# -------------------------------------------------------------------- F-names
def name_pools():
    """renamings into names that look like the synthetic names the library generates"""
    return {
        "cnf_aux": {"i0": "a", "i1": "b", "i2": "xor_a_b", "g": "xor_inv_g", "h": "xor_xor_a_b_c"},
        "ternary": {"i0": "a", "i1": "a_X", "g": "g_X", "h": "g_x_in_fi"},
        "limit": {"i0": "g_limit_fanin_0", "i1": "g_limit_fanout_0", "h": "g_limit_fanin_1"},
        "miter": {"i0": "sat", "i1": "dif_g", "h": "c0_g", "i2": "c1_g"},
        "miter3": {"i0": "c0_k", "i1": "c1_k", "i2": "c0_m", "h": "c1_h", "a": "c0_a", "b": "c1_a", "s": "c1_s"},
        "miter2": {"i0": "dif_en", "i1": "sat_in", "i2": "c0x", "h": "dif", "a": "dif_a_en", "s": "c1", "b": "satb"},
        "unroll": {"i0": "unrolled_0_a", "i1": "aux_in_g", "h": "c0_a"},
        "unroll2": {"i0": "a_cg_unroll_0", "i1": "unrolled_1_g", "g": "a_cg_unroll_1", "h": "a"},
        "regs": {"i0": "ff_g", "i1": "g_cg_insert_reg_q_1", "h": "clk", "g": "g"},
        "acyc": {"a": "aux_in_q", "s": "c0_q", "r": "c1_aux_in_q", "d": "aux_in_p", "b": "c0_aux_in_p"},
        "escaped": {"i0": "\\a[0]", "i1": "\\b+c", "g": "\\out[1]", "h": "\\sel", "i2": "sel", "a": "\\reset", "b": "reset", "s": "\\n_1", "c": "\\d,en", "d": "\\x;y"},
        "verilog": {"i0": "not_a", "i1": "and_a_b", "i2": "a", "h": "g_0"},
        "acyc2": {"qn": "nq", "q": "q", "p": "n1", "r": "inv_r", "s": "and1", "u": "x_u", "v": "in_v", "f": "uf", "g": "a_g", "a1": "n_a1", "b2": "i2"},
        "bench": {"i0": "buffer_en", "i1": "obuff", "i2": "BUFF_SEL", "g": "nand_out", "h": "xnor1", "a": "dffq", "b": "INPUTa", "s": "not_rdy", "c": "OUTPUTb", "d": "DFF_d"},
    }


def renamed(cases, pool):
    m = name_pools()[pool]
    out = []
    for cid, s in cases:
        out.append(((pool,) + cid, rename(s, lambda n: m.get(n, n))))
    return out


def reordered(cases):
    """same circuits with the nodes inserted in reverse order (gates before their drivers, inputs last): graph iteration order
    is then different from topological order"""
    out = []
    for cid, s in cases:
        out.append((("revorder",) + cid, {"name": s["name"], "nodes": list(reversed(s["nodes"])), "edges": list(reversed(s["edges"])), "bbs": dict(s.get("bbs", {}))}))
    return out


def f_wide(widths=(17, 33), types=("and", "nand", "or", "nor", "xor", "xnor")):
    """one gate with very many operands (beyond 16 = a typical wrap / maxsplit / count limit), feeding a second gate"""
    out = []
    for k in widths:
        for t in types:
            ins = [(f"a{j}", "input", []) for j in range(k)]
            out.append((("wide", t, k), mkspec(f"wide_{t}_{k}", ins + [("g", t, [f"a{j}" for j in range(k)], True), ("h", "xor", ["g", "a0", f"a{k - 1}"], True)])))
    return out


# ---------------------------------------------------------------------- F-cyc
def f_cyc():
    S = []

    def add(name, nodes):
        S.append((("cyc", name), mkspec(name, nodes)))

    I = lambda *ns: [(n, "input", []) for n in ns]
    add("nor_latch", I("s", "r") + [("q", "nor", ["r", "qn"], True), ("qn", "nor", ["s", "q"], True)])
    add("nand_latch", I("s", "r") + [("q", "nand", ["s", "qn"], True), ("qn", "nand", ["r", "q"], True)])
    add("gated_latch", I("d", "en") + [("dn", "not", ["d"]), ("s", "and", ["d", "en"]), ("r", "and", ["dn", "en"]),
                                       ("q", "nor", ["r", "qn"], True), ("qn", "nor", ["s", "q"])])
    add("even_ring", I("a") + [("p", "not", ["q"]), ("q", "not", ["p"]), ("o", "and", ["a", "p"], True)])
    add("odd_ring", I("a") + [("p", "not", ["r"]), ("q", "not", ["p"]), ("r", "not", ["q"]), ("o", "or", ["a", "r"], True)])
    add("ring_and", I("a", "b") + [("p", "and", ["a", "r"]), ("q", "or", ["p", "b"]), ("r", "buf", ["q"]), ("o", "xor", ["r", "a"], True)])
    add("nested", I("a", "b") + [("p", "and", ["a", "s"]), ("q", "or", ["p", "r"]), ("r", "and", ["q", "b"]), ("s", "or", ["r", "a"]), ("o", "buf", ["s"], True)])
    add("overlap", I("a") + [("p", "or", ["a", "q", "r"]), ("q", "and", ["p", "a"]), ("r", "and", ["p", "q"]), ("o", "buf", ["r"], True), ("o2", "not", ["q"], True)])
    add("two_scc", I("a", "b") + [("p", "or", ["a", "q"]), ("q", "buf", ["p"]), ("u", "and", ["b", "v", "q"]), ("v", "buf", ["u"]), ("o", "xor", ["q", "v"], True)])
    add("out_outside", I("a") + [("p", "or", ["a", "q"]), ("q", "and", ["p", "a"]), ("o", "not", ["a"], True), ("o2", "buf", ["q"], True)])
    add("xor_ring", I("a") + [("p", "xor", ["a", "q"]), ("q", "buf", ["p"], True)])
    add("osc_elsewhere", I("a", "en") + [("osc", "nand", ["en", "osc"], True), ("p", "and", ["a", "en"], True), ("q", "not", ["a"], True)])
    add("hold_elsewhere", I("a", "b", "set") + [("h", "or", ["set", "h"], True), ("k", "xor", ["k", "set"], True), ("p", "xor", ["a", "b"], True)])
    add("self_xor", I("a") + [("g", "xor", ["g", "a"], True)])
    add("self_and", I("a", "b") + [("g", "and", ["g", "a"]), ("o", "or", ["g", "b"], True)])
    add("self_xnor3", I("a", "b") + [("g", "xnor", ["g", "a", "b"], True), ("h", "xor", ["h", "g", "a", "b"], True)])
    add("self_or_buf", I("a") + [("g", "or", ["g", "a"]), ("h", "nor", ["h"], True), ("o", "buf", ["g"], True)])
    add("latch_consts", I("s") + [("k0", "0", []), ("k1", "1", []), ("q", "nor", ["k0", "qn"], True), ("qn", "nor", ["s", "q"]), ("o", "and", ["q", "k1"], True)])
    add("ring_const_out", I("a") + [("k1", "1", [], True), ("p", "and", ["a", "q", "k1"]), ("q", "or", ["p", "a"], True)])
    add("two_cuts_v_first", I("a", "b") + [("v", "and", ["f", "g", "a"], True), ("f", "or", ["v", "b"]), ("g", "xor", ["v", "a"])])
    add("two_cuts_v_last", I("a", "b") + [("f", "or", ["v", "b"]), ("g", "xnor", ["v", "a"]), ("v", "nand", ["f", "g", "a"], True)])
    add("two_cuts_mixed", I("a", "b") + [("f", "nor", ["v", "b"]), ("v", "or", ["f", "g"], True), ("g", "and", ["v", "a"]), ("w", "xor", ["f", "g", "b"], True)])
    add("shared_load_three", I("a") + [("v", "xor", ["f", "g", "h"], True), ("f", "and", ["v", "a"]), ("g", "or", ["v", "a"]), ("h", "not", ["v"])])
    # two loops in series with acyclic nodes between them (back edges of a node ordering that lie on no cycle are not feedback)
    add("loops_in_series", I("en") + [("a1", "and", ["en", "a2"]), ("a2", "buf", ["a1"]), ("u", "not", ["a1"]), ("v", "buf", ["u"]),
                                      ("b1", "and", ["v", "b3"]), ("b2", "or", ["v", "b1"]), ("b3", "xor", ["v", "b2"], True)])
    add("loops_in_series_wide", I("en", "k") + [("a1", "or", ["en", "a2"]), ("a2", "and", ["a1", "k"]), ("u", "nand", ["a1", "k"]), ("v", "xor", ["u", "en"], True), ("w", "not", ["v"]),
                                                ("b1", "nor", ["w", "b2", "v"]), ("b2", "and", ["w", "b1", "v"], True), ("o", "xnor", ["b1", "v", "w"], True)])
    # one strongly connected component with interleaved loops (every cycle through some back edges contains a second back edge)
    E7 = [(0, 3), (0, 6), (2, 4), (2, 5), (3, 2), (3, 5), (4, 0), (4, 6), (5, 7), (6, 5), (7, 3)]
    for t in ("or", "and"):
        add(f"interleaved_loops_{t}", I("i") + [(f"g{n}", t, ["i"] + [f"g{u}" for u, v in E7 if v == n], n in (0, 5)) for n in (0, 2, 3, 4, 5, 6, 7)])
    S.append((("cyc", "feedthrough_output"), mkspec("feedthrough_output", [("s", "input", [], True), ("r", "input", []), ("q", "nor", ["r", "qn"], True), ("qn", "nor", ["s", "q"])])))
    return S


def rand_cyclic(rng, name):
    s = rand_dag(rng, n_in=rng.randint(1, 3), n_gates=rng.randint(3, 8), max_arity=3, consts=rng.random() < 0.3, name=name, wide=False)
    gates = [n for n, t, _ in s["nodes"] if t in GATES2]
    allg = [n for n, t, _ in s["nodes"] if t != "input"]
    es = {tuple(e) for e in s["edges"]}
    for _ in range(rng.randint(1, 3)):
        if not gates:
            break
        v = rng.choice(gates)
        u = rng.choice(allg)
        if u != v and (u, v) not in es:
            s["edges"].append([u, v])
            es.add((u, v))
    return s


def rand_series(rng, name):
    """two random loops in series: loop A -> chain of acyclic gates -> loop B; the chain nodes fan out into loop B"""
    nodes, edges = [["i0", "input", False], ["i1", "input", False]], []
    T2 = ["and", "or", "nand", "nor", "xor", "xnor"]

    def loop(prefix, k, feeds):
        ns = [f"{prefix}{j}" for j in range(k)]
        for j, n in enumerate(ns):
            nodes.append([n, rng.choice(T2), rng.random() < 0.3])
            edges.append([ns[j - 1], n])  # ring (k >= 2)
            for f in feeds:
                if rng.random() < 0.7 or j == 0:
                    edges.append([f, n])
        return ns

    A = loop("a", rng.randint(2, 3), ["i0"])
    chain = []
    prev = rng.choice(A)
    for j in range(rng.randint(1, 3)):
        n = f"m{j}"
        t = rng.choice(["buf", "not"] + T2)
        nodes.append([n, t, rng.random() < 0.3])
        edges.append([prev, n])
        if t in T2 and rng.random() < 0.6:
            edges.append([rng.choice(["i0", "i1"]), n])
        chain.append(n)
        prev = n
    B = loop("b", rng.randint(2, 3), chain[-2:] if rng.random() < 0.5 else chain[-1:])
    nodes.append(["o", rng.choice(T2), True])
    edges += [[rng.choice(B), "o"], ["i1", "o"]]
    es = []
    for e in edges:
        if e not in es:
            es.append(e)
    return {"name": name, "nodes": nodes, "edges": es, "bbs": {}}


def rand_dense_scc(rng, name):
    """one dense strongly connected component of 6..9 gates (a ring plus random chords in both directions), gates created in random order"""
    k = rng.randint(6, 9)
    order = list(range(k))
    rng.shuffle(order)
    ring = list(range(k))
    rng.shuffle(ring)
    es = {(ring[j], ring[(j + 1) % k]) for j in range(k)}
    for _ in range(rng.randint(3, 6)):
        u, v = rng.sample(range(k), 2)
        es.add((u, v))
    t = rng.choice(["or", "and", "nor", "xor"])
    nodes = [["i", "input", False]] + [[f"g{n}", t if rng.random() < 0.7 else rng.choice(["or", "and"]), rng.random() < 0.3] for n in order]
    nodes[1][2] = True
    edges = [["i", f"g{n}"] for n in order if rng.random() < 0.7] + [[f"g{u}", f"g{v}"] for u, v in sorted(es)]
    return {"name": name, "nodes": nodes, "edges": edges, "bbs": {}}


def f_rand_cyc(seed, count):
    import networkx as nx
    from cgv.net import Net

    out = []
    i = 0
    tries = 0
    while len(out) < count and tries < count * 20:
        tries += 1
        rng = random.Random(f"cgv-cyc-{seed}-{tries}")
        s = rand_series(rng, f"rser{tries}") if tries % 4 == 0 else (rand_dense_scc(rng, f"rscc{tries}") if tries % 4 == 2 else rand_cyclic(rng, f"rcyc{tries}"))
        n = Net.from_spec(s)
        if not n.is_acyclic() and not any(u == v for u, v in s["edges"]):
            out.append((("randcyc", seed, tries), s))
    return out


# ----------------------------------------------------------------------- F-bb
FF = ["ff", ["clk", "d"], ["q"]]
BOX = ["box", ["p", "r"], ["y", "z"]]


def f_bb():
    S = []

    def add(name, nodes, bbs, edges=()):
        S.append((("bb", name), mkspec(name, nodes, edges=edges, bbs=bbs)))

    I = lambda *ns: [(n, "input", []) for n in ns]

    def pins(inst, bb, conn):
        """pin nodes + edges for instance; conn: pin -> net (inputs: driver, outputs: driven buf)"""
        nodes, edges = [], []
        for p in bb[1]:
            nodes.append((f"{inst}.{p}", "bb_input", [conn[p]] if p in conn else []))
        for p in bb[2]:
            nodes.append((f"{inst}.{p}", "bb_output", []))
            if p in conn:
                edges.append((f"{inst}.{p}", conn[p]))
        return nodes, edges

    n, e = pins("f0", FF, {"clk": "clk", "d": "a", "q": "qb"})
    add("flop", I("clk", "a") + [("qb", "buf", []), ("o", "not", ["qb"], True)] + n, {"f0": FF}, e)
    n, e = pins("f0", FF, {"clk": "a", "d": "g", "q": "qb"})
    add("flop_feedback", I("a") + [("qb", "buf", []), ("g", "xor", ["a", "qb"], True)] + n, {"f0": FF}, e)
    n, e = pins("b0", BOX, {"p": "a", "r": "b", "y": "yb"})  # z unconnected
    add("box_out_unconnected", I("a", "b") + [("yb", "buf", []), ("o", "and", ["yb", "b"], True)] + n, {"b0": BOX}, e)
    n, e = pins("b0", BOX, {"p": "a", "y": "yb"})  # r unconnected (not lint-clean with undriven=True), z unconnected
    add("box_partial", I("a", "b") + [("yb", "buf", []), ("o", "and", ["yb", "b"], True)] + n, {"b0": BOX}, e)
    n1, e1 = pins("b0", BOX, {"p": "a", "r": "b", "y": "y0", "z": "z0"})
    n2, e2 = pins("b1", BOX, {"p": "y0", "r": "z0", "y": "y1", "z": "z1"})
    add("back_to_back", I("a", "b") + [("y0", "buf", []), ("z0", "buf", []), ("y1", "buf", [], True), ("z1", "buf", []), ("o", "nor", ["z1", "a"], True)] + n1 + n2,
        {"b0": BOX, "b1": BOX}, e1 + e2)
    n1, e1 = pins("b0", BOX, {"p": "a", "r": "b", "y": "y0", "z": "z0"})
    n2, e2 = pins("b1", BOX, {"p": "y0", "y": "y1"})  # same box type, r and z left unconnected by the later instance
    n3, e3 = pins("b2", BOX, {"r": "z0", "z": "z2"})
    add("boxes_partial", I("a", "b") + [("y0", "buf", []), ("z0", "buf", []), ("y1", "buf", [], True), ("z2", "buf", []), ("o", "nor", ["z2", "a"], True)] + n1 + n2 + n3,
        {"b0": BOX, "b1": BOX, "b2": BOX}, e1 + e2 + e3)
    n1, e1 = pins("f0", FF, {"clk": "clk", "d": "a", "q": "q0"})
    n2, e2 = pins("f1", FF, {"clk": "clk", "d": "q0", "q": "q1"})
    n3, e3 = pins("f2", FF, {"clk": "clk", "d": "a", "q": "q2"})
    add("clock_fanout", I("clk", "a") + [("q0", "buf", []), ("q1", "buf", []), ("q2", "buf", []), ("g", "and", ["clk", "q1"]), ("o", "xor", ["g", "q2", "a"], True)] + n1 + n2 + n3,
        {"f0": FF, "f1": FF, "f2": FF}, e1 + e2 + e3)
    n1, e1 = pins("b0", BOX, {"p": "a", "r": "b", "y": "yb", "z": "zb"})  # z drives a named net that nothing reads (a spare QN)
    add("box_out_dangling_net", I("a", "b") + [("yb", "buf", []), ("zb", "buf", []), ("o", "and", ["yb", "b"], True)] + n1, {"b0": BOX}, e1)
    n, e = pins("f0", FF, {"clk": "k1", "d": "k0", "q": "qb"})
    add("flop_consts", I("a") + [("k0", "0", []), ("k1", "1", []), ("qb", "buf", []), ("o", "or", ["qb", "a"], True)] + n, {"f0": FF}, e)
    return S


def f_bb_dotted():
    """a blackbox whose PIN names contain a dot (legal for the Circuit API and lint; not expressible in Verilog)"""
    BOXD = ["boxd", ["data.d", "en"], ["data.q"]]
    nodes = [("a", "input", []), ("b", "input", []), ("qd", "buf", []), ("o", "and", ["qd", "a"], True),
             ("r0.data.d", "bb_input", ["a"]), ("r0.en", "bb_input", ["b"]), ("r0.data.q", "bb_output", [])]
    # an ordinary gate whose name carries the instance prefix but is not a pin of the box (lint accepts it: the instance exists)
    nodes2 = nodes + [("r0.n1", "xor", ["a", "b"]), ("o2", "or", ["r0.n1", "qd"], True)]
    return [(("bb", "dotted_pins"), mkspec("dotted_pins", nodes, edges=[("r0.data.q", "qd")], bbs={"r0": BOXD})),
            (("bb", "dotted_nonpin"), mkspec("dotted_nonpin", nodes2, edges=[("r0.data.q", "qd")], bbs={"r0": BOXD}))]


def f_rand_bb(seed, count):
    """random DAGs with 1..3 blackbox instances (ff / box) spliced in: pins fed by random nets or constants or left unconnected,
    outputs driving fresh buffers that feed later logic"""
    out = []
    for i in range(count):
        rng = random.Random(f"cgv-bb-{seed}-{i}")
        s = rand_dag(rng, n_in=rng.randint(2, 4), n_gates=rng.randint(3, 9), max_arity=4, consts=rng.random() < 0.4, name=f"rbb{i}")
        nodes = [tuple(n) + ((),) if False else n for n in s["nodes"]]
        names = [n[0] for n in s["nodes"]]
        gates = [n[0] for n in s["nodes"] if n[1] not in ("input", "0", "1")]
        bbs = {}
        extra_nodes, extra_edges = [], []
        for j in range(rng.randint(1, 3)):
            bb = rng.choice([FF, BOX])
            inst = f"u{j}"
            bbs[inst] = bb
            for p_ in bb[1]:
                drv = rng.choice(names) if rng.random() < 0.8 else None
                extra_nodes.append([f"{inst}.{p_}", "bb_input", False])
                if drv:
                    extra_edges.append([drv, f"{inst}.{p_}"])
            for p_ in bb[2]:
                extra_nodes.append([f"{inst}.{p_}", "bb_output", False])
                if rng.random() < 0.8:
                    w = f"{inst}_{p_}_net"
                    extra_nodes.append([w, "buf", rng.random() < 0.3])
                    extra_edges.append([f"{inst}.{p_}", w])
                    # feed a multi-input gate later in the list (keeps the graph acyclic: the buffer has no other fan-in)
                    tgt = [g for g in gates if dict((n[0], n[1]) for n in s["nodes"])[g] in GATES2]
                    r_ = rng.random()
                    if tgt and r_ < 0.75:
                        extra_edges.append([w, rng.choice(tgt)])
                    elif r_ < 0.88 or not extra_nodes[-1][2]:
                        extra_nodes[-1][2] = r_ < 0.88  # otherwise: a named net on the pin that nothing reads and that is not an output
        spec = {"name": s["name"], "nodes": [list(n) for n in s["nodes"]] + extra_nodes, "edges": [list(e) for e in s["edges"]] + extra_edges, "bbs": bbs}
        from cgv.net import Net
        if Net.from_spec(spec).is_acyclic():
            out.append((("randbb", seed, i), spec))
    return out


def seq_circuits():
    """sequential circuits (flops as blackboxes) for C09 sequential_unroll"""
    S = []

    def mk(name, nodes, flops, bb, dport, qport, other):
        bbs, ns, es = {}, list(nodes), []
        for inst, (d, q) in flops.items():
            bbs[inst] = bb
            for p in bb[1]:
                drv = d if p == dport else other.get(p)
                ns.append((f"{inst}.{p}", "bb_input", [drv] if drv else []))
            for p in bb[2]:
                ns.append((f"{inst}.{p}", "bb_output", []))
                if p == qport:
                    es.append((f"{inst}.{p}", q))
        return mkspec(name, ns, edges=es, bbs=bbs)

    I = lambda *ns: [(n, "input", []) for n in ns]
    S.append((("seq", "toggle"), mk("toggle", I("clk", "en") + [("q", "buf", []), ("d", "xor", ["en", "q"]), ("o", "not", ["q"], True)],
                                    {"r0": ("d", "q")}, FF, "d", "q", {"clk": "clk"}), "d", "q"))
    S.append((("seq", "shift2"), mk("shift2", I("clk", "a") + [("q0", "buf", []), ("q1", "buf", []), ("d0", "buf", ["a"]), ("d1", "and", ["q0", "a"]), ("o", "or", ["q0", "q1"], True)],
                                    {"r0": ("d0", "q0"), "r1": ("d1", "q1")}, FF, "d", "q", {"clk": "clk"}), "d", "q"))
    S.append((("seq", "qnames"), mk("qnames", I("clk", "req_q", "en_d", "gate_clk") + [("q", "buf", []), ("d", "xor", ["req_q", "q", "en_d", "gate_clk"]), ("ack_q", "and", ["q", "req_q"], True), ("st_d", "not", ["q"], True), ("div_clk", "or", ["q", "gate_clk"], True)],
                                    {"r0": ("d", "q")}, FF, "d", "q", {"clk": "clk"}), "d", "q"))
    S.append((("seq", "io_input"), mk("io_input", [("clk", "input", []), ("en", "input", [], True), ("a", "input", [])] + [("q", "buf", []), ("d", "and", ["en", "a", "q"]), ("o", "or", ["q", "en"], True)],
                                      {"r0": ("d", "q")}, FF, "d", "q", {"clk": "clk"}), "d", "q"))
    # unobserved logic: a gate that nothing reads and that is no output, fed by an input / a flop output with no other load
    S.append((("seq", "dead_logic"), mk("dead_logic", I("clk", "a", "spare") + [("q0", "buf", []), ("q1", "buf", []), ("d0", "xor", ["a", "q0"]), ("d1", "buf", ["q0"]),
                                                                                   ("dead", "and", ["spare", "a"]), ("dead2", "not", ["q1"]), ("o", "not", ["q0"], True)],
                                        {"r0": ("d0", "q0"), "r1": ("d1", "q1")}, FF, "d", "q", {"clk": "clk"}), "d", "q"))
    # a primary input wired straight and only into D pins (serial input of a shift register)
    S.append((("seq", "serial_in"), mk("serial_in", I("clk", "sin", "en") + [("q0", "buf", []), ("q1", "buf", []), ("d1", "and", ["q0", "en"]), ("o", "xor", ["q0", "q1"], True)],
                                       {"r0": ("sin", "q0"), "r1": ("d1", "q1")}, FF, "d", "q", {"clk": "clk"}), "d", "q"))
    CKDQ = ["dff", ["CK", "D"], ["Q"]]
    S.append((("seq", "cnt3"), mk("cnt3", I("CK", "inc") + [("s0", "buf", []), ("s1", "buf", []), ("s2", "buf", []),
                                                             ("n0", "xor", ["s0", "inc"]), ("c0", "and", ["s0", "inc"]), ("n1", "xor", ["s1", "c0"]), ("c1", "and", ["s1", "c0"]),
                                                             ("n2", "xnor", ["s2", "c1"]), ("o", "nor", ["s0", "s1", "s2"], True), ("p", "buf", ["n1"], True)],
                                  {"f0": ("n0", "s0"), "f1": ("n1", "s1"), "f2": ("n2", "s2")}, CKDQ, "D", "Q", {"CK": "CK"}), "D", "Q"))
    return S


# ------------------------------------------------------------- F-small: exhaustive small scope
def f_small(max_gates=2, types=GATES, consts=False):
    """EVERY circuit with inputs {a, b} (+ constant k1 if consts) and up to max_gates gates, each gate any type and any
    non-empty fan-in subset of the earlier nodes (buf/not: single fan-in); outputs = every node without load + the last gate."""
    out = []
    base = ["a", "b"] + (["k1"] if consts else [])

    def rec(gates, pool):
        if gates:
            used = {u for _, _, fi in gates for u in fi}
            nodes = [("a", "input", []), ("b", "input", [])] + ([("k1", "1", [])] if consts else [])
            nodes += [(n, t, fi, (n not in used) or n == gates[-1][0]) for n, t, fi in gates]
            cid = ("small",) + tuple((t, tuple(fi)) for _, t, fi in gates)
            out.append((cid, mkspec("small", nodes)))
        if len(gates) == max_gates:
            return
        g = f"g{len(gates)}"
        for t in types:
            for r in range(1, (1 if t in ("buf", "not") else min(3, len(pool))) + 1):
                for fi in itertools.combinations(pool, r):
                    rec(gates + [(g, t, list(fi))], pool + [g])

    rec([], base)
    return out
