"""C13 - generated arithmetic blocks compute the arithmetic they name (E1 + AST->SMT for clog2 + CrossHair)."""
import ast
import inspect
import os
import subprocess
import sys
import textwrap
import time

import z3

from cgv import sim
from cgv.core import call
from cgv.net import Net, wellformed
from cgv.sem import Sem, bv_of

META = {
    "level": "translation_validation",
    "engine": "E1 artifact-level SMT: outputs of logic.adder/mux/popcount/half_adder/full_adder as bit-vectors vs z3 bit-vector arithmetic for ALL input vectors at each width; clog2 translated from its AST into z3 (bounded unrolling with unwinding assertion); CrossHair for the int_to_bin/bin_to_int round trip",
    "hashseeds": {"quick": [0, 1], "thorough": [0, 1, 2, 3]},
    "shards": {"quick": 8, "thorough": 4},
    "bounds": {
        "quick": "adder w=1..16 x 4 carry options, mux w=1..16, popcount w=1..16, half/full adder, plus adder w in {65,129,258} (with carry-out), mux w in {65,129}: all input vectors; clog2: all 1<=n<=2^64 by AST->z3 unrolling (65 iterations + unwinding assertion); int_to_bin/bin_to_int round trip by CrossHair for w<=4 (reported Confirmed/Not confirmed; not-confirmed is reported as inconclusive, never as success) and by AST-level bounded check for w<=10",
        "thorough": "adder w=1..48 and 11 widths from 63 to 300, mux w=1..40 and 8 widths from 63 to 257, popcount w=1..40; clog2 n<=2^128; round trip w<=6 CrossHair",
    },
    "outside": ["widths other than the listed ones (popcount above 40: the adder-tree-vs-sum query at w=65 timed out at 120 s)", "int_to_bin for i >= 2^w (result longer than w, documented behaviour of zfill)"],
    "assumptions": ["sem.py gate table", "z3 bit-vector theory", "the AST->z3 translator for clog2 handles exactly: assignment, augmented <<= and +=, while, if/raise, return (anything else aborts the check as harness error)"],
}


def all_cases(ctx):
    W = 16 if ctx.quick else 48
    WM = 16 if ctx.quick else 40
    cs = [(("half_adder",), ("half_adder",)), (("full_adder",), ("full_adder",))]
    for w in range(1, W + 1):
        for ci in (False, True):
            for co in (False, True):
                cs.append((("adder", w, ci, co), ("adder", w, ci, co)))
    for w in (1, 3):
        for ci in (0, 1, None):
            for co in (0, 1, None):
                cs.append((("adder", w, ci, co), ("adder", w, ci, co)))
    for w in range(1, WM + 1):
        cs.append((("mux", w), ("mux", w)))
        cs.append((("popcount", w), ("popcount", w)))
    # sparse large widths around the powers of two (word sizes, table sizes, small-int limits of the implementation language)
    for w in ((65, 129, 258) if ctx.quick else (63, 64, 65, 127, 128, 129, 255, 256, 257, 258, 300)):
        cs.append((("adder", w, True, True), ("adder", w, True, True)))
        cs.append((("adder", w, False, True), ("adder", w, False, True)))
    for w in ((65, 129) if ctx.quick else (63, 64, 65, 127, 128, 129, 193, 257)):
        cs.append((("mux", w), ("mux", w)))
    # (popcount beyond w=40 is out of reach: the adder-tree-vs-sum query at w=65 does not finish in 120 s)
    cs.append((("clog2",), ("clog2",)))
    cs.append((("roundtrip",), ("roundtrip",)))
    return cs


def bits(val, names):
    return [val[n] for n in names]


def run(ctx):
    from circuitgraph import logic, utils

    ctx.functions(logic.half_adder, logic.full_adder, logic.adder, logic.mux, logic.popcount, utils.clog2, utils.int_to_bin, utils.bin_to_int)
    for cid, p in ctx.cases(all_cases(ctx)):
        kind = p[0]
        if kind == "clog2":
            check_clog2(ctx, utils)
            continue
        if kind == "roundtrip":
            check_roundtrip(ctx, utils)
            continue
        # generators must return fresh circuits: wreck one instance of every block, then generate the one under check
        for gen, args in (("half_adder", ()), ("full_adder", ()), ("adder", (2,)), ("mux", (2,)), ("popcount", (2,)), (kind, tuple(p[1:]))):
            junk, _e = call(getattr(logic, gen), *args)
            if junk is not None:
                junk.graph.clear()
                junk.blackboxes.clear()
        c, e = call(getattr(logic, kind), *p[1:])
        det = {"case": cid}
        if e is not None:
            ctx.side(f"{kind}-raises", False, f"{kind}:raises:{type(e).__name__}", f"logic.{kind}{p[1:]} raised {e!r}", det)
            continue
        N = Net.of(c)
        bad = wellformed(N)
        ctx.side(f"{kind}-wellformed", not bad, f"{kind}:not-lint-clean", f"generated block violates lint rules: {bad[:3]}", det)
        ctx.lint_clean(c, kind)
        if bad or not N.is_acyclic():
            continue
        if len(N.types) < 40:
            ctx.sample({"case": cid, "circuit": N.spec()})
        S = Sem()
        env = {f: S.var("v!" + f) for f in N.free()}
        val = S.fn(N, env)
        ins, outs = N.inputs(), N.outputs()

        def names(prefix, k):
            return [f"{prefix}_{i}" for i in range(k)]

        if kind in ("half_adder", "full_adder"):
            exp_in = {"x", "y"} | ({"cin"} if kind == "full_adder" else set())
            exp_out = {"s", "c"} if kind == "half_adder" else {"s", "cout"}
            if not ctx.side(f"{kind}-io", ins == exp_in and outs == exp_out, f"{kind}:io", f"io is {sorted(ins)} -> {sorted(outs)}", det):
                continue
            tot = sum([z3.If(env[i], 1, 0) for i in sorted(exp_in)])
            carry = "c" if kind == "half_adder" else "cout"
            neg = z3.Or(z3.Xor(val["s"], tot % 2 == 1), z3.Xor(val[carry], tot >= 2))
            inv, outv = sorted(exp_in), ["s", carry]

            def expect(b, inv=inv):
                t = sum(b[i] for i in inv)
                return [t % 2, t // 2]
        elif kind == "adder":
            w, ci, co = p[1:]
            exp_in = set(names("a", w)) | set(names("b", w)) | ({"cin"} if ci else set())
            exp_out = set(names("out", w)) | ({"cout"} if co else set())
            if not ctx.side("adder-io", ins == exp_in and outs == exp_out, "adder:io", f"adder{p[1:]} io is {sorted(ins)} -> {sorted(outs)}", det):
                continue
            W1 = w + 1
            a = z3.ZeroExt(1, bv_of(bits(env, names("a", w))))
            b = z3.ZeroExt(1, bv_of(bits(env, names("b", w))))
            cin = z3.If(env["cin"], z3.BitVecVal(1, W1), z3.BitVecVal(0, W1)) if ci else z3.BitVecVal(0, W1)
            total = a + b + cin
            outv = names("out", w) + (["cout"] if co else [])
            got = bv_of(bits(val, outv))
            neg = got != (total if co else z3.Extract(w - 1, 0, total))
            inv = sorted(exp_in)

            def expect(bv, w=w, ci=ci, co=co):
                t = sum(bv[f"a_{i}"] << i for i in range(w)) + sum(bv[f"b_{i}"] << i for i in range(w)) + (bv["cin"] if ci else 0)
                return [(t >> i) & 1 for i in range(w + (1 if co else 0))]
        elif kind == "mux":
            w = p[1]
            ns = utils_clog2_ref(w)
            exp_in = set(names("in", w)) | set(names("sel", ns))
            if not ctx.side("mux-io", ins == exp_in and outs == {"out"}, "mux:io", f"mux({w}) io is {sorted(ins)} -> {sorted(outs)}", det):
                continue
            sel = bv_of(bits(env, names("sel", ns))) if ns else None
            ref = z3.Or([z3.And(env[f"in_{i}"], (sel == i) if ns else z3.BoolVal(True)) for i in range(w)])
            neg = z3.Xor(val["out"], ref)
            outv, inv = ["out"], sorted(exp_in)

            def expect(bv, w=w, ns=ns):
                s = sum(bv[f"sel_{j}"] << j for j in range(ns))
                return [bv[f"in_{s}"] if s < w else 0]
        else:  # popcount
            w = p[1]
            exp_in = set(names("in", w))
            k = len(outs)
            outv = names("out", k)
            if not ctx.side("popcount-io", ins == exp_in and outs == set(outv) and (1 << k) > w, "popcount:io", f"popcount({w}) io is {sorted(ins)} -> {sorted(outs)}", det):
                continue
            WW = max(k, w.bit_length()) + 1
            tot = sum([z3.If(env[i], z3.BitVecVal(1, WW), z3.BitVecVal(0, WW)) for i in sorted(exp_in)])
            got = z3.ZeroExt(WW - k, bv_of(bits(val, outv)))
            neg = got != tot
            inv = sorted(exp_in)

            def expect(bv, k=k, inv=inv):
                t = sum(bv[i] for i in inv)
                return [(t >> i) & 1 for i in range(k)]

        def replay(m, N=N, S=S, inv=inv, outv=outv, expect=expect, det=det, kind=kind):
            bvals = sim.model_bits(m, S.vars)
            free = {f: bvals.get("v!" + f, 0) for f in N.free()}
            got = sim.evaluate(N, free)
            exp = expect({i: free[i] for i in inv})
            g = [got[o] for o in outv]
            d = dict(det)
            d.update({"inputs": {i: free[i] for i in inv}, "outputs": g, "expected": exp})
            return {"reproduced": g != exp, "sig": f"{kind}:wrong-arithmetic", "what": f"logic.{kind}{det['case'][1:]} outputs {g}, arithmetic says {exp}", "detail": d}

        ok = ctx.prove(f"{kind}-arith", [neg], replay)
        if ok and kind != "half_adder":
            ctx.twin(f"twin-{kind}", [z3.Not(neg), z3.Or(list(env.values()))])


def utils_clog2_ref(n):
    """reference ceil(log2 n) (harness side, integer only)"""
    return (n - 1).bit_length()


# --------------------------------------------------------------------------- clog2: AST -> z3
class Unsupported(Exception):
    pass


def sym_exec_clog2(src, N, unroll):
    """Tiny symbolic executor for the statement forms clog2 uses. Returns (result_term, raises_term, unwound_term)."""
    tree = ast.parse(textwrap.dedent(src))
    fn = tree.body[0]
    assert isinstance(fn, ast.FunctionDef) and len(fn.args.args) == 1
    env = {fn.args.args[0].arg: N}
    state = {"ret": None, "returned": z3.BoolVal(False), "raised": z3.BoolVal(False), "unwound": z3.BoolVal(False)}

    def ex(e, env):
        if isinstance(e, ast.Constant) and isinstance(e.value, int) and not isinstance(e.value, bool):
            return z3.IntVal(e.value)
        if isinstance(e, ast.Name):
            return env[e.id]
        if isinstance(e, ast.Tuple):
            return [ex(x, env) for x in e.elts]
        if isinstance(e, ast.Compare) and len(e.ops) == 1:
            a, b = ex(e.left, env), ex(e.comparators[0], env)
            op = e.ops[0]
            return {ast.Lt: a < b, ast.LtE: a <= b, ast.Gt: a > b, ast.GtE: a >= b, ast.Eq: a == b, ast.NotEq: a != b}[type(op)]
        if isinstance(e, ast.BinOp):
            a, b = ex(e.left, env), ex(e.right, env)
            return binop(e.op, a, b)
        raise Unsupported(ast.dump(e))

    def binop(op, a, b):
        if isinstance(op, ast.Add):
            return a + b
        if isinstance(op, ast.Sub):
            return a - b
        if isinstance(op, ast.LShift):
            if z3.is_int_value(b):
                return a * (2 ** b.as_long())
            raise Unsupported("shift by non-constant")
        if isinstance(op, ast.Mult):
            return a * b
        raise Unsupported(str(op))

    def merge(c, e1, e2):
        out = {}
        for k in set(e1) | set(e2):
            if k in e1 and k in e2:
                out[k] = e1[k] if e1[k] is e2[k] else z3.If(c, e1[k], e2[k])
            else:
                out[k] = e1.get(k, e2.get(k))
        return out

    def block(stmts, env, live):
        for s in stmts:
            if isinstance(s, ast.Expr) and isinstance(s.value, ast.Constant):
                continue  # docstring
            if isinstance(s, ast.Assign) and len(s.targets) == 1:
                tgt, v = s.targets[0], ex(s.value, env)
                env = dict(env)
                if isinstance(tgt, ast.Tuple):
                    for t, x in zip(tgt.elts, v):
                        env[t.id] = x
                else:
                    env[tgt.id] = v
            elif isinstance(s, ast.AugAssign):
                env = dict(env)
                env[s.target.id] = binop(s.op, env[s.target.id], ex(s.value, env))
            elif isinstance(s, ast.If):
                c = ex(s.test, env)
                e1, l1 = block(s.body, env, z3.And(live, c))
                e2, l2 = block(s.orelse, env, z3.And(live, z3.Not(c)))
                env = merge(c, e1, e2)
                live = z3.Or(l1, l2)
            elif isinstance(s, ast.Raise):
                state["raised"] = z3.Or(state["raised"], live)
                live = z3.BoolVal(False)
            elif isinstance(s, ast.Return):
                v = ex(s.value, env)
                state["ret"] = v if state["ret"] is None else z3.If(live, v, state["ret"])
                state["returned"] = z3.Or(state["returned"], live)
                live = z3.BoolVal(False)
            elif isinstance(s, ast.While):
                if s.orelse:
                    raise Unsupported("while-else")
                for _ in range(unroll):
                    c = ex(s.test, env)
                    e1, l1 = block(s.body, env, z3.And(live, c))
                    env = merge(z3.And(live, c), e1, env)
                    live = z3.Or(l1, z3.And(live, z3.Not(c)))
                # unwinding assertion: the loop condition must be false now
                state["unwound"] = z3.Or(state["unwound"], z3.And(live, ex(s.test, env)))
                live = z3.And(live, z3.Not(ex(s.test, env)))
            else:
                raise Unsupported(ast.dump(s)[:80])
        return env, live

    block(fn.body, env, z3.BoolVal(True))
    return state


def check_clog2(ctx, utils):
    W = 64 if ctx.quick else 128
    src = inspect.getsource(utils.clog2)
    n = z3.Int("n")
    boundary_sweep(ctx, utils, 300)
    try:
        st = sym_exec_clog2(src, n, W + 1)
    except (Unsupported, Exception) as e:  # noqa
        # the source uses a form the translator does not handle: no solver verdict for clog2 in this run (reported, never counted as success)
        ctx.r.setdefault("extra", {})["clog2_solver_claim"] = f"NOT ESTABLISHED: AST->z3 translator does not support this implementation ({str(e)[:120]}); only the concrete boundary sweep ran"
        ctx.note("clog2: solver claim not established (untranslatable source); boundary sweep only")
        return
    r = st["ret"]
    pre = z3.And(n >= 1, n <= 2 ** W)

    def pow2(t):
        e = z3.IntVal(2 ** (W + 2))
        for k in range(W + 1, -1, -1):
            e = z3.If(t == k, z3.IntVal(2 ** k), e)
        return e

    post = z3.And(r >= 0, r <= W, pow2(r) >= n, z3.Or(r == 0, pow2(r - 1) < n))

    def replay(m, utils=utils):
        v = m.eval(n, model_completion=True).as_long()
        got, e = call(utils.clog2, v)
        exp = (v - 1).bit_length()
        return {"reproduced": got != exp, "sig": "clog2:wrong", "what": f"clog2({v}) = {got!r} ({e!r}), ceil(log2) = {exp}", "detail": {"n": v}}

    ctx.prove("clog2-unwinding", [pre, st["unwound"]], lambda m: {"reproduced": False, "what": "unwinding bound too small"})
    ctx.prove("clog2-returns", [pre, z3.Or(z3.Not(st["returned"]), st["raised"])], replay_raise(utils, n))
    ctx.prove("clog2-post", [pre, st["returned"], z3.Not(post)], replay)
    ctx.prove("clog2-rejects-nonpositive", [n < 1, z3.Not(st["raised"])], lambda m: {"reproduced": not isinstance(call(utils.clog2, m.eval(n, model_completion=True).as_long())[1], ValueError), "sig": "clog2:accepts-nonpositive", "what": "clog2 accepts n < 1"})
    ctx.twin("twin-clog2", [pre, st["returned"], r == 7])
    ctx.sample({"case": "clog2", "bound": f"1 <= n <= 2^{W}", "translated_from": "inspect.getsource(circuitgraph.utils.clog2)"})
    # translator validation: concrete runs of the real function vs the encoding
    for v in list(range(1, 70)) + [2 ** k + d for k in (10, 31, 63) for d in (-1, 0, 1)]:
        s = z3.Solver()
        s.add(n == v, st["returned"], r == utils.clog2(v))
        ctx.side("clog2-translator-validation", s.check() == z3.sat, "clog2:translator", f"AST->z3 encoding disagrees with the real clog2 at n={v}")


def boundary_sweep(ctx, utils, K):
    """concrete side assertion: clog2 at 2^k-1, 2^k, 2^k+1 for k <= K and all n <= 4096 (catches float rounding etc.)"""
    bad = []
    pts = list(range(1, 4097)) + [2 ** k + d for k in range(12, K + 1) for d in (-1, 0, 1)]
    for v in pts:
        got, e = call(utils.clog2, v)
        if e is not None or got != (v - 1).bit_length():
            bad.append((v, got, repr(e)))
            if len(bad) > 3:
                break
    ctx.side("clog2-boundaries", not bad, "clog2:wrong", f"clog2 differs from ceil(log2 n) at (n, got, exc) {bad[:2]}", {"points": bad[:4]})
    for v in (0, -1, -7):
        got, e = call(utils.clog2, v)
        ctx.side("clog2-nonpositive", isinstance(e, ValueError), "clog2:accepts-nonpositive", f"clog2({v}) = {got!r} / {e!r}: expected ValueError")


def replay_raise(utils, n):
    def f(m):
        v = m.eval(n, model_completion=True).as_long()
        got, e = call(utils.clog2, v)
        return {"reproduced": e is not None, "sig": "clog2:raises", "what": f"clog2({v}) raised {e!r}", "detail": {"n": v}}
    return f


# ------------------------------------------------------------------- int_to_bin / bin_to_int
CROSSHAIR_SRC = '''
from typing import Tuple
from circuitgraph.utils import int_to_bin, bin_to_int

def _roundtrip(i: int, w: int, lend: bool) -> Tuple[int, int]:
    """
    pre: 1 <= w <= {W}
    pre: 0 <= i < 2 ** w
    post: _[0] == i and _[1] == w
    """
    t = int_to_bin(i, w, lend)
    return (bin_to_int(t, lend), len(t))
'''


def check_roundtrip(ctx, utils):
    # (a) bounded exhaustive-by-solver is not possible through bin()/str; the solver-side claim is CrossHair's.
    W = 4 if ctx.quick else 6
    budget = 60 if ctx.quick else 240
    import tempfile

    verdict, out = "not-run", ""
    t0 = time.time()
    with tempfile.TemporaryDirectory(prefix="cgv_ch_") as td:
        path = os.path.join(td, "rt_harness.py")
        open(path, "w").write(CROSSHAIR_SRC.replace("{W}", str(W)))
        env = dict(os.environ)
        env["PYTHONPATH"] = os.environ.get("CGV_REPO", "/repo") + os.pathsep + env.get("PYTHONPATH", "")
        try:
            p = subprocess.run([sys.executable, "-m", "crosshair", "check", "--report_all", "--per_condition_timeout", str(budget), path],
                               capture_output=True, text=True, timeout=budget + 120, env=env, cwd=td)
            out = (p.stdout + p.stderr).strip()
            if "Confirmed over all paths" in out:
                verdict = "confirmed"
            elif "error" in out.lower() and "false when calling" in out:
                verdict = "counterexample"
            elif "Not confirmed" in out or "Unable to meet precondition" in out:
                verdict = "inconclusive"
            else:
                verdict = "inconclusive:" + out[:200]
        except Exception as e:  # crosshair absent or timed out
            verdict = f"inconclusive: {e!r}"
    ctx.r.setdefault("extra", {})["crosshair_roundtrip"] = {"w_max": W, "verdict": verdict, "seconds": round(time.time() - t0, 1), "output": out[-600:]}
    ctx.note(f"CrossHair int_to_bin/bin_to_int round trip w<={W}: {verdict}")
    if verdict == "counterexample":
        # replay: find it concretely
        bad = roundtrip_bad(utils, W)
        ctx.side("roundtrip-crosshair", not bad, "roundtrip:wrong", f"int_to_bin/bin_to_int round trip fails: {bad[:2]} (CrossHair: {out[-300:]})")
    # (b) concrete side assertion over the whole small domain (labelled concrete, not a solver verdict)
    bad = roundtrip_bad(utils, 8 if ctx.quick else 11)
    ctx.side("roundtrip-concrete", not bad, "roundtrip:wrong", f"bin_to_int(int_to_bin(i,w,lend),lend) != i or len != w at {bad[:3]}")
    ctx.count("roundtrip_concrete_domain_w", 8 if ctx.quick else 11)


def roundtrip_bad(utils, W):
    bad = []
    for w in range(1, W + 1):
        for i in range(2 ** w):
            for lend in (False, True):
                t, e = call(utils.int_to_bin, i, w, lend)
                if e is not None or len(t) != w or not all(isinstance(b, bool) for b in t):
                    bad.append((i, w, lend, "int_to_bin", repr(e)))
                    continue
                # definition check: bit k of i
                exp = [bool((i >> k) & 1) for k in range(w)]
                if list(t) != (exp if lend else exp[::-1]):
                    bad.append((i, w, lend, "bits", t))
                r, e = call(utils.bin_to_int, t, lend)
                if r != i:
                    bad.append((i, w, lend, "roundtrip", r))
                lst = list(t)  # a list argument must be decoded like the tuple and must not be modified
                r1, _ = call(utils.bin_to_int, lst, lend)
                r2, _ = call(utils.bin_to_int, lst, lend)
                if r1 != i or r2 != i or lst != list(t):
                    bad.append((i, w, lend, "list-argument", (r1, r2)))
    return bad
