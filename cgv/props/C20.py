"""C20 - lint decides well-formedness (E2 on arbitrary, possibly ill-formed graphs); library outputs pass it."""
import itertools
import json
import os

import z3

from cgv import e2, specs
from cgv import symgraph as sg
from cgv.symgraph import MISSING, TS, TYPES, UNSUPPORTED

META = {
    "level": "model_checking",
    "engine": "E2 lazy-fork symbolic execution of the real utils.lint (with the real Circuit accessors) on an arbitrary symbolic graph (no legality pre-condition: presence, type incl. unsupported/missing, output flag, every edge incl. self-loops are z3 variables); per path z3 proves  documented-rule-violated => raises ValueError  and  raises => some documented (or documented-ambiguous) rule violated",
    "hashseeds": {"quick": [0], "thorough": [0]},
    "shards": {"quick": 16, "thorough": 16},
    "exhaustive_within_bound": True,
    "bounds": {
        "quick": "2-name universes {a,b}, {bb.i,bb.o}, {a,bb.o}, {bb.i,zz.p}, {a,zz.}, {bb.o,bbx.i}, {bb.io,a} with bb(io;io), {a,c} with a pin-less box, {bb.i,cc.j} with two same-named box types (self-loops give fan-in/fan-out counts 0,1,2 = every threshold the rules use); registry in {none, bb(i;o)}; type in 14 supported + unsupported string + missing + a non-string value; 5 flag combinations forming a pairwise covering array (every pair of flags in all four value combinations; first = defaults)",
        "thorough": "all 16 flag combinations on the plain, pin and pin-less-box universes, the pairwise covering array of 5 on the seven name-rule universes + 3-name universe {a,b,c} with types restricted to {input, buf, and, bb_output, 0, unsupported}",
    },
    "outside": ["graphs with more names (every rule needs at most a focus node, two predecessors or two successors)", "second sentence of the property (library outputs are lint-clean) is a concrete side assertion made by every E1 harness on every circuit the library returns; C20's evidence aggregates the count from the other evidence files"],
    "assumptions": ["SymDiGraph stand-in (conformance replay on every path)", "Must/May rule formulas below are the documented rule list; May additionally allows: a bb_input pin counted as unloaded when unloaded=True", "z3 sound"],
    "rule": "state = explored path; transition = solver-decided branch",
}

UNIVERSES = {"trailing": ["a", "zz."], "plain": ["a", "b"], "pins": ["bb.i", "bb.o"], "mixed_o": ["a", "bb.o"], "mixed_i": ["bb.i", "zz.p"], "prefix": ["bb.o", "bbx.i"], "bidir": ["bb.io", "a"], "nopins": ["a", "c"], "sametype": ["bb.i", "cc.j"]}
# pairwise covering array over the four flags (every pair of flags takes all four value combinations); first row = defaults
FLAGS_QUICK = [(True, False, True, False), (True, True, False, True), (False, False, False, True), (False, True, True, True), (False, True, False, False)]


def all_cases(ctx):
    flags = FLAGS_QUICK if ctx.quick else list(itertools.product((True, False), repeat=4))
    sb = 4 if ctx.quick else 5
    cs = []
    for un, U in UNIVERSES.items():
        for reg in (False, True):
            # the per-node rules are flag dependent: full flag menu on the plain and pin universes, two combinations on the name-rule universes
            full = un in ("plain", "pins") or (un == "nopins" and not ctx.quick)
            for fl in (flags if full else ([flags[0], flags[1]] if ctx.quick else FLAGS_QUICK)):
                for k in [int(format(k, f"0{sb}b")[::-1], 2) for k in range(1 << sb)]:
                    cs.append(((un, reg, fl, k), (U, reg, fl, sb, k, None)))
    # error-count dimension: K concrete ill-formed nodes (constant '0' with a self-loop = exactly one error each) + one fully symbolic node
    for K in (9, 10, 11):
        for fl in [(False, False, True, False), (True, False, True, False)]:
            cs.append((("many", K, fl), (["a"] + [f"z{i}" for i in range(K)], False, fl, 0, 0, "many")))
    if not ctx.quick:
        sb3 = 8
        for fl in [(True, False, True, False), (False, True, True, True)]:
            for k in [int(format(k, f"0{sb3}b")[::-1], 2) for k in range(1 << sb3)]:
                cs.append((("abc", False, fl, k), (["a", "b", "c"], False, fl, sb3, k, ["input", "buf", "and", "bb_output", "0", "UNSUPPORTED"])))
    return cs


def library_output_cases(ctx):
    """second sentence of the property: what the library's generators / transforms / parsers return for lint-clean arguments is
    lint-clean.  Concrete side assertions (the real lint, whose verdicts are what the E2 part of this check establishes)."""
    from cgv import families as F

    fam = F.f_shape() + F.reordered(F.f_shape()) + [c for c in F.f_unit(3) if c[0][0] == "pair"][:12] + F.f_bb() + F.f_bb_dotted() + F.f_rand_bb(ctx.seed, 6 if ctx.quick else 40) + F.f_rand(ctx.seed, 10 if ctx.quick else 60)
    return [(("libout",) + cid, ("libout", spec)) for cid, spec in fam]


def check_library_outputs(ctx, cid, spec):
    import circuitgraph as cg
    from circuitgraph import tx
    from cgv.core import call
    from cgv.net import Net, build, wellformed

    A = Net.from_spec(spec)
    if wellformed(A) or not A.is_acyclic():
        ctx.rejected("family member not lint-clean")
        return
    det = {"case": cid, "circuit": spec if len(spec["nodes"]) < 25 else None}
    plain = not A.bbs and not A.has_x()
    dotted_pins = any("." in p_ for v in A.bbs.values() for p_ in v[1] + v[2])
    stray = sorted(n for n, t in A.types.items() if "." in n and t not in ("bb_input", "bb_output"))  # dotted names that are no pins
    calls = [("limit_fanin", lambda: tx.limit_fanin(build(spec), 2)), ("limit_fanout", lambda: tx.limit_fanout(build(spec), 2)),
             ("verilog round trip", lambda: cg.io.verilog_to_circuit(cg.io.circuit_to_verilog(build(spec)), spec["name"], blackboxes=[cg.BlackBox(v[0], v[1], v[2]) for v in A.bbs.values()])),
             ("fast verilog parse", lambda: cg.io.verilog_to_circuit(cg.io.circuit_to_verilog(build(spec)), spec["name"], blackboxes=[cg.BlackBox(v[0], v[1], v[2]) for v in A.bbs.values()], fast=True)),
             ("copy", lambda: build(spec).copy())]
    if dotted_pins:
        calls = [c_ for c_ in calls if "verilog" not in c_[0]]  # such pin names are not Verilog identifiers
    if A.bbs:
        calls.append(("strip_blackboxes", lambda: tx.strip_blackboxes(build(spec))))
    if plain:
        calls += [("ternary", lambda: tx.ternary(build(spec))[0]), ("miter", lambda: tx.miter(build(spec))), ("acyclic_unroll", lambda: tx.acyclic_unroll(build(spec))),
                  ("supergates", lambda: tx.supergates(build(spec))), ("bench round trip", lambda: cg.io.bench_to_circuit(cg.io.circuit_to_bench(build(spec)), spec["name"]))]
        outs = sorted(A.outputs() - A.inputs())
        ins = sorted(A.inputs())
        if outs and ins:
            calls.append(("unroll", lambda: tx.unroll(build(spec), 2, {outs[0]: ins[0]})[0]))
            calls.append(("sensitivity_transform", lambda: tx.sensitivity_transform(build(spec), outs[0])))
            calls.append(("sensitization_transform", lambda: tx.sensitization_transform(build(spec), ins[0])))
        if "clk" not in A.types:
            calls.append(("insert_registers", lambda: tx.insert_registers(build(spec), 1)))
    for name, f in calls:
        r, e = call(f)
        if e is not None:
            ctx.count("library_calls_raising")  # whether a call may raise is the business of the property that owns the function
            continue
        for c in (r if isinstance(r, list) else [r]):
            flags = {}
            if name in ("sensitization_transform", "miter") and False:
                flags = {}
            if name == "strip_blackboxes" and stray:
                # known finding (known_findings.json): a gate named <inst>.<x> that is no pin of <inst> passes lint while the instance is
                # registered; strip_blackboxes removes the instance and keeps the gate's name. Only that exact complaint gets the
                # known signature; any other complaint about the result is reported under the ordinary one.
                try:
                    cg.lint(c, fail_fast=False)
                    ctx.r["lint_clean_outputs"] += 1
                except ValueError as e_:
                    lines = [ln for ln in str(e_).split("\n")[1:] if ln.strip()]
                    only = bool(lines) and all(ln in {f"node '{s_}' has blackbox syntax with no instance" for s_ in stray} for ln in lines)
                    ctx.side(name + ":lint", False, "lint-clean-output:strip_blackboxes:dotted-non-pin-node" if only else f"lint-clean-output:{name}",
                             f"library output is not lint-clean: {'; '.join(lines)[:200]}", det)
                continue
            ctx.lint_clean(c, name, sig=f"lint-clean-output:{name}")


def rules(U, S, registry, flags):
    """(Must, May): z3 formulas over the pre-state accessors"""
    fail_fast, unloaded, undriven, single = flags
    must, may_extra = [], []
    ZERO = [TS[t] for t in ("input", "0", "1", "x", "bb_output")]
    ONE = [TS[t] for t in ("buf", "not", "bb_input")]
    MULTI = [TS[t] for t in ("and", "nand", "or", "nor", "xor", "xnor")]
    for g in U:
        p, t = S.present(g), S.typ(g)
        indeg = specs.count(z3.And(S.present(u), S.edge(u, g)) for u in U)
        outdeg = specs.count(z3.And(S.present(w), S.edge(g, w)) for w in U)
        typed = z3.And(t >= 0, t < len(TYPES))
        r = [z3.Not(typed)]  # R1
        r.append(z3.And(typed, specs.is_in(t, ZERO), indeg > 0))  # R2
        r.append(z3.And(typed, specs.is_in(t, ONE), indeg > 1))  # R3
        nonbuf = z3.Or([z3.And(S.present(w), S.edge(g, w), S.typ(w) != TS["buf"]) for w in U])
        r.append(z3.And(t == TS["bb_output"], z3.Or(outdeg > 1, nonbuf)))  # R4
        if "." in g and g.split(".")[0] not in registry:
            r.append(z3.BoolVal(True))  # R5
        if undriven:
            r.append(z3.And(typed, specs.is_in(t, ONE + MULTI), indeg < 1))  # R7
        if single:
            r.append(z3.And(typed, specs.is_in(t, MULTI), indeg < 2))  # R9
        if unloaded:
            unl = z3.And(z3.Not(S.out(g)), outdeg == 0)
            r.append(z3.And(unl, t != TS["bb_input"]))  # R8 (certain)
            may_extra.append(z3.And(p, unl))  # bb_input pins: documentation leaves it open
        must.append(z3.And(p, z3.Or(r)))
    for inst, (ins, outs) in registry.items():  # R6
        for pin, tt in [(x, "bb_input") for x in ins] + [(x, "bb_output") for x in outs]:
            n = f"{inst}.{pin}"
            must.append(z3.Or(z3.Not(S.present(n)), S.typ(n) != TS[tt]))
    Must = z3.Or(must) if must else z3.BoolVal(False)
    May = z3.Or([Must] + may_extra)
    return Must, May


def run(ctx):
    import circuitgraph as cg
    from circuitgraph import utils

    ctx.functions(utils.lint)
    for cid, payload in ctx.cases(all_cases(ctx) + library_output_cases(ctx)):
        if payload[0] == "libout":
            check_library_outputs(ctx, cid, payload[1])
            continue
        (U, reg, fl, sb, k, types) = payload
        vars_ = sg.make_vars(U)
        if types == "many":
            pre = sg.base_pre(vars_, types=TYPES + ["UNSUPPORTED", "MISSING"])
            P_, T_, O_, E_ = vars_
            for z in U[1:]:
                pre += [P_[z], T_[z] == TS["0"], z3.Not(O_[z])]
            for (u, v), e in E_.items():
                if u == v and u != "a":
                    pre.append(e)
                elif not (u == "a" and v == "a"):
                    pre.append(z3.Not(e))
        else:
            pre = sg.base_pre(vars_, types=types or (TYPES + ["UNSUPPORTED", "MISSING", "NONSTR"]))
        registry = {"bb": (["i"], ["o"])} if reg else {}
        bbs_run = None
        if reg and U == UNIVERSES["nopins"]:
            registry = {"bb": ([], [])}  # a registered box without any pin (filler cell): the pin rule has nothing to ask for
        if reg and U == UNIVERSES["sametype"]:
            # two instances whose box definitions carry the same type name but declare different pins
            registry = {"bb": (["i"], []), "cc": (["j"], [])}
            bbs_run = {"bb": (["i"], [], "cell"), "cc": (["j"], [], "cell")}
        if reg and "bb.io" in U:
            registry = {"bb": (["io"], ["io"])}  # a box that lists the same pin as input and as output: no node type can satisfy both
        special = U in (UNIVERSES["nopins"], UNIVERSES["sametype"], UNIVERSES["bidir"])
        if special:
            pass
        elif reg and "bb.i" not in U and "bb.o" in U:
            registry = {"bb": ([], ["o"])}  # universes without the input pin: a box that only has the output pin (else the pin rule always fires)
        elif reg and "bb.o" not in U and "bb.i" in U:
            registry = {"bb": (["i"], [])}
        fail_fast, unloaded, undriven, single = fl

        def op(c, fl=fl):
            return utils.lint(c, fail_fast=fl[0], unloaded=fl[1], undriven=fl[2], single_input_gates=fl[3])

        cache = {}

        def posts(pre_, post, out, names, c, U=U, registry=registry, fl=fl, cache=cache):
            key = id(pre_) if not getattr(pre_, "concrete", False) else None
            if key is None or key not in cache:
                mm = rules(U, pre_, registry, fl)
                if key is not None:
                    cache[key] = mm
            else:
                mm = cache[key]
            Must, May = mm
            raisedVE = out.kind == "raise" and out.exc == "ValueError"
            other = out.kind == "raise" and out.exc != "ValueError"
            res = [("exception-type", z3.BoolVal(not other), sig_exc(out, fl), f"lint{fl} raised {out.exc} ({out.ret}) instead of ValueError")]
            if not other:
                res.append(("must-raise", z3.Implies(Must, z3.BoolVal(raisedVE)), "lint:accepts-ill-formed", f"lint(fail_fast={fl[0]}, unloaded={fl[1]}, undriven={fl[2]}, single_input_gates={fl[3]}) accepted a circuit that violates a documented rule"))
                res.append(("raise-justified", z3.Implies(z3.BoolVal(raisedVE), May), "lint:rejects-well-formed", f"lint{fl} raised ValueError ({out.ret}) although no documented rule is violated"))
            g_ = c.graph
            if getattr(g_, "is_symbolic", False):
                res.append(("no-write", z3.BoolVal(not g_.wnode and not g_.wattr and not g_.wedge and not g_.created), "lint:writes-to-circuit", "lint modified the circuit it was called on"))
            return res

        st = e2.run(ctx, "lint", U, vars_, pre, bbs_run or registry, op, posts, split=(sb, k), detail={"case": cid, "flags": dict(zip(("fail_fast", "unloaded", "undriven", "single_input_gates"), fl)), "registry": reg}, nonstr=True)
        ctx.sample({"case": cid, "universe": U, "flags": fl, "registry": reg, "paths": st["paths"]})


def sig_exc(out, fl):
    if out.kind == "raise" and out.exc == "KeyError" and not fl[0]:
        return "lint:keyerror-untyped-node-fail_fast-off"
    return f"lint:raises-{out.exc}"


def finish(cov, counters):
    """second sentence of the property: aggregate the lint-clean side assertions the E1 harnesses made (from their evidence files)"""
    root = os.path.dirname(os.path.dirname(os.path.dirname(os.path.abspath(__file__))))
    agg = {}
    for f in sorted(os.listdir(os.path.join(root, "evidence"))):
        if f.endswith(".json") and f != "C20.json":
            try:
                e = json.load(open(os.path.join(root, "evidence", f)))
                n = e["coverage"].get("library_outputs_lint_clean", 0)
                if n:
                    agg[e["property_id"]] = n
            except Exception:  # noqa
                pass
    cov["library_outputs_checked_lint_clean_by_other_checks"] = agg
