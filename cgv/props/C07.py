"""C07 - the construction API never leaves an illegally wired circuit (E2, inductive step)."""
import z3

from cgv import e2, specs
from cgv import symgraph as sg
from cgv.symgraph import TS

META = {
    "level": "model_checking",
    "engine": "E2 lazy-fork symbolic execution of the real Circuit.add/connect/disconnect/remove/set_output/add_blackbox/add_subcircuit/fill_blackbox on an arbitrary LEGAL pre-state (inductive step): per path z3 proves legality of the post-state, no edge added by a rejected call, exception type, uid freshness, pin bookkeeping",
    "hashseeds": {"quick": [0], "thorough": [0]},
    "shards": {"quick": 16, "thorough": 8},
    "exhaustive_within_bound": True,
    "bounds": {
        "quick": "pre-state: every legal circuit over the 5-name universe {a, b, a_0, bb.i, bb.o} (all presence/type/output/edge bits incl. self-loops symbolic), registry in {none, intact instance bb(i;o)}; one call from the argument menu (concrete arguments incl. invalid, duplicate, self-referential, missing names; 8 node types incl. an unsupported one; default flags and uid=True); 3 concrete children for add_subcircuit/fill_blackbox",
        "thorough": "6-name universe {a, b, c, a_0, bb.i, bb.o}, all 14 types + unsupported in add, larger argument menu",
    },
    "outside": ["histories are covered by induction: one step from ANY legal state; the invariant is the property's own list, so only its inductiveness (proved here per operation) is needed", "allow_redefinition=True / add_connected_nodes=True (parser-internal flags)", "universes with more names", "argument values outside the menu"],
    "assumptions": ["SymDiGraph stand-in + nx stubs (validated by conformance replay on every path)", "specs.legal_wiring / pins_ok are the property's list", "every counterexample pre-state is rebuilt from the empty circuit through the public API before it is reported", "z3 sound"],
    "rule": "state = explored path (class of pre-states driving the real code the same way); transition = solver-decided branch",
}


def children():
    import circuitgraph as cg

    def ha():
        c = cg.Circuit("ha")
        c.add("x", "input")
        c.add("y", "input")
        c.add("s", "xor", fanin=["x", "y"], output=True)
        return c

    def inv():
        c = cg.Circuit("inv")
        c.add("i", "input")
        c.add("o", "not", fanin="i", output=True)
        return c

    def clash():
        c = cg.Circuit("clash")
        c.add("i", "input")
        c.add("0", "buf", fanin="i") if False else c.graph.add_node("0", type="buf", output=False)
        c.graph.add_edge("i", "0")
        c.add("o", "buf", fanin="i", output=True)
        return c

    def nested():
        c = cg.Circuit("nested")
        c.add("i", "input")
        c.add("m", "buf")
        c.add_blackbox(cg.BlackBox("inner", ["p"], ["q"]), "r", {"p": "i", "q": "m"})
        c.add("o", "not", fanin="m", output=True)
        return c

    def noin():
        c = cg.Circuit("noin")
        c.add("k", "1")
        c.add("i", "not", fanin="k")  # an internal gate named like the box's input port; the child has no inputs
        c.add("o", "buf", fanin="i", output=True)
        return c

    def extra():
        c = cg.Circuit("extra")
        c.add("i", "input")
        c.add("j", "input")
        c.add("o", "and", fanin=["i", "j"], output=True)
        return c

    return {"ha": ha, "inv": inv, "clash": clash, "nested": nested, "noin": noin, "extra": extra}


def menu(ctx):
    """list of (case_id, (kind, args...))"""
    q = ctx.quick
    ops = []
    types = ["and", "buf", "not", "input", "0", "bb_input", "bb_output", "bogus_type"] if q else sg.TYPES + ["bogus_type"]
    for t in types:
        for n, uid in (("d", False), ("a", False), ("a", True), ("9x", False)):
            ops.append(("add", n, t, None, None, uid))
    # illegal types that are "almost" supported: wrong case, the ints 0/1 instead of the strings
    for t in (["AND", 1] if q else ["AND", "Input", "Bb_Output", 0, 1]):
        ops.append(("add", "d", t, None, None, False))
        ops.append(("add", "d", t, "a", "b", False))
        ops.append(("add", "a", t, None, None, True))
    fis = [None, "a", ["a", "b"], ["a", "a"], ["d"], ["zz"]]
    fos = [None, "b", ["b", "bb.i"], ["zz"]] if q else [None, "b", ["b", "c"], ["b", "bb.i"], ["zz"], ["d"]]
    for t in (["and", "buf", "input", "bb_output"] if q else ["and", "nor", "buf", "not", "input", "1", "bb_input", "bb_output"]):
        for fi in fis:
            for fo in fos:
                if fi is None and fo is None:
                    continue
                ops.append(("add", "d", t, fi, fo, False))
                if fi in ("a", ["a", "b"]) and fo in (None, "b", ["zz"]):
                    ops.append(("add", "a", t, fi, fo, True))
    uss = ["a", ["a", "b"], ["a", "a"], "zz", [], "bb.o", "bb.i"]
    vss = ["b", ["b", "a_0"], "a", "zz", "bb.i", "bb.o", ["b", "b"]]
    for us in uss:
        for vs in vss:
            ops.append(("connect", us, vs))
    for us, vs in (("a", "b"), (["a", "b"], ["b", "a_0"]), ("zz", "a"), ("a", "a")):
        ops.append(("disconnect", us, vs))
    for ns in ("a", ["a", "b"], "zz", "bb.i", ["bb.o", "a"]):
        ops.append(("remove", ns))
    for ns in ("a", ["a", "zz"], "bb.i"):
        for flag in (True, False):
            ops.append(("set_output", ns, flag))
    for name in ("bb", "nb", "a", "9b"):
        for conn in (None, {"i": "a", "o": "b"}, {"i": "zz"}, {"q": "a"}, {"o": "a", "i": "b"}, {"i": "bb.o"}):
            ops.append(("add_blackbox", name, conn))
    for name in ("nb", "bb"):
        ops.append(("add_blackbox_dup_pin", name, None))
        ops.append(("add_blackbox_dup_pin", name, {"i": "a"}))
    for ch in ("ha", "inv", "clash"):
        for name in ("u", "a"):
            for conn in (None, {"x": "a", "s": "b"}, {"i": "a", "o": "b"}, {"i": "zz"}, {"nope": "a"}, {"o": "bb.i", "i": "bb.o"}):
                ops.append(("add_subcircuit", ch, name, conn))
    for ch in ("inv", "ha", "clash", "nested", "noin", "extra"):
        for name in ("bb", "nb"):
            ops.append(("fill_blackbox", name, ch))
    ops.append(("add_subcircuit", "nested", "bb", None))
    ops.append(("add_subcircuit", "nested", "u", {"i": "a", "o": "b"}))
    out = []
    # 13th request for one base name: a, a_0 .. a_10 are all taken (uid then jumps to a_70)
    for t in ("and", "buf", "input"):
        out.append(((repr(("add", "a", t, None, None, True)), "deep-uid"), (("add", "a", t, None, None, True), "deep-uid")))
    out.append(((repr(("add", "a", "and", ["a_3"], ["a_10"], True)), "deep-uid"), (("add", "a", "and", ["a_3"], ["a_10"], True), "deep-uid")))
    # a child with a nested box r(p;q) instantiated as `bb` into a parent that already has plain nodes called bb_r.p / bb_r.q
    for conn in (None, {"i": "a", "o": "b"}):
        op_ = ("add_subcircuit", "nested", "bb", conn)
        out.append(((repr(op_), "nested-pin-names"), (op_, "nested-pin-names")))
    for op in ops:
        for reg in (False, True):
            out.append(((repr(op), reg), (op, reg)))
        if op[0] in ("fill_blackbox", "add_subcircuit") and "nested" in op:
            out.append(((repr(op), "reg+bb_r"), (op, "bb_r")))  # the parent already records an instance named bb_r
    return out


def make_op(op, kids):
    import circuitgraph as cg

    k = op[0]
    if k == "add":
        _, n, t, fi, fo, uid = op
        return lambda c: c.add(n, t, fanin=(list(fi) if isinstance(fi, list) else fi), fanout=(list(fo) if isinstance(fo, list) else fo), uid=uid)
    if k == "connect":
        return lambda c: c.connect(op[1] if isinstance(op[1], str) else list(op[1]), op[2] if isinstance(op[2], str) else list(op[2]))
    if k == "disconnect":
        return lambda c: c.disconnect(op[1] if isinstance(op[1], str) else list(op[1]), op[2] if isinstance(op[2], str) else list(op[2]))
    if k == "remove":
        return lambda c: c.remove(op[1] if isinstance(op[1], str) else list(op[1]))
    if k == "set_output":
        return lambda c: c.set_output(op[1] if isinstance(op[1], str) else list(op[1]), op[2])
    if k == "add_blackbox":
        return lambda c: c.add_blackbox(cg.BlackBox("bbt", ["i"], ["o"]), op[1], dict(op[2]) if op[2] else None)
    if k == "add_blackbox_dup_pin":
        # a BlackBox that lists pin `i` both as input and as output: creating the second pin node is rejected
        return lambda c: c.add_blackbox(cg.BlackBox("bbd", ["i"], ["o", "i"]), op[1], dict(op[2]) if op[2] else None)
    if k == "add_subcircuit":
        return lambda c: c.add_subcircuit(kids[op[1]](), op[2], dict(op[3]) if op[3] else None)
    if k == "fill_blackbox":
        return lambda c: c.fill_blackbox(op[1], kids[op[2]]())
    raise ValueError(k)


def run(ctx):
    import circuitgraph as cg

    C = cg.Circuit
    ctx.functions(C.add, C.connect, C.disconnect, C.remove, C.set_output, C.uid, C.add_blackbox, C.add_subcircuit, C.fill_blackbox, C.relabel, C.set_type)
    kids = children()
    U = ["a", "b", "a_0", "bb.i", "bb.o"] if ctx.quick else ["a", "b", "c", "a_0", "bb.i", "bb.o"]
    U_std = U
    for cid, (op, reg) in ctx.cases(menu(ctx)):
        U = U_std
        if reg == "deep-uid":
            U = ["a"] + [f"a_{i}" for i in range(11)]
        if reg == "nested-pin-names":
            U = ["a", "b", "bb_r.p", "bb_r.q"]
        vars_ = sg.make_vars(U)
        A = e2.acc_pre(vars_)
        pre = sg.base_pre(vars_)
        pre.append(specs.legal_wiring(U, A.present, A.typ, A.edge))
        bbs = {"bb": (["i"], ["o"])} if (reg and reg not in ("deep-uid", "nested-pin-names")) else {}
        if reg == "deep-uid":
            pre += [vars_[0][n] for n in U]  # every name is taken
        if reg == "bb_r":
            bbs["bb_r"] = ([], [])  # a pin-less instance whose name clashes with <name>_<nested instance>
        if reg and reg not in ("deep-uid", "nested-pin-names"):
            pre.append(specs.pins_ok(bbs, A.present, A.typ))
        f = make_op(op, kids)
        removed_by_caller = set()
        if op[0] == "remove":
            removed_by_caller = {op[1]} if isinstance(op[1], str) else set(op[1])

        def posts(pre_, post, out, names, c, op=op, reg=reg, removed_by_caller=removed_by_caller, U=U):
            res = []
            res.append(("legal-wiring", specs.legal_wiring(names, post.present, post.typ, post.edge), "api:illegal-wiring-after-" + op[0] + ("" if out.kind == "ok" else "-rejected"),
                        f"{op[0]}{op[1:]} ({'returned' if out.kind == 'ok' else 'raised ' + str(out.exc)}) leaves an illegally wired circuit"))
            if out.kind == "raise":
                allowed = out.exc == "ValueError" or (out.exc == "KeyError" and op[0] == "set_output")
                res.append(("exception-type", z3.BoolVal(allowed), f"api:{op[0]}:raises-{out.exc}", f"{op[0]}{op[1:]} raised {out.exc} ({out.ret}) instead of ValueError"))
                no_new = z3.And([z3.Implies(z3.And(post.present(u), post.present(v), post.edge(u, v)), z3.And(pre_.present(u), pre_.present(v), pre_.edge(u, v))) for u in names for v in names])
                res.append(("rejected-adds-no-edge", no_new, f"api:{op[0]}:rejected-call-added-edge", f"{op[0]}{op[1:]} raised {out.exc} but added an edge"))
            if op[0] == "add" and op[5]:
                keep = []
                for v in U:
                    keep.append(z3.Implies(pre_.present(v), z3.And(post.present(v), post.typ(v) == pre_.typ(v), post.out(v) == pre_.out(v))))
                    for w in U:
                        keep.append(z3.Implies(z3.And(pre_.present(v), pre_.present(w)), post.edge(v, w) == pre_.edge(v, w)))
                if out.kind == "ok":
                    keep.append(z3.Not(pre_.present(out.ret)) if isinstance(out.ret, str) else z3.BoolVal(False))
                res.append(("uid-fresh", z3.And(keep), "api:add-uid-overwrites", f"add(uid=True) returned {out.ret!r}: an existing node was overwritten / renamed / rewired"))
            registry = {k: (sorted(b.inputs()), sorted(b.outputs())) for k, b in c.blackboxes.items()}
            if out.kind == "raise":
                pre_reg = {"bb": (["i"], ["o"])} if (reg and reg not in ("deep-uid", "nested-pin-names")) else {}
                if reg == "bb_r":
                    pre_reg["bb_r"] = ([], [])
                res.append(("rejected-keeps-registry", z3.BoolVal(registry == {k_: (sorted(v_[0]), sorted(v_[1])) for k_, v_ in pre_reg.items()}), f"api:{op[0]}:rejected-call-changed-registry",
                            f"{op[0]}{op[1:]} raised {out.exc} but changed the blackbox registry to {sorted(registry)}"))
            if reg or op[0] in ("add_blackbox", "add_blackbox_dup_pin", "add_subcircuit", "fill_blackbox"):
                res.append(("pins", specs.pins_ok(registry, post.present, post.typ, exempt=removed_by_caller), f"api:{op[0]}:registry-pins", f"after {op[0]}{op[1:]} ({out.kind}) a recorded blackbox instance lacks a pin node of the right type (registry {sorted(registry)})"))
            return res

        st = e2.run(ctx, f"{op[0]}", U, vars_, pre, bbs, f, posts, detail={"case": cid, "call": repr(op), "registry": reg}, reachable=lambda before, bbs=bbs: reachable(before, bbs))
        ctx.sample({"case": cid, "universe": U, "call": repr(op), "paths": st["paths"]})


def reachable(before, bbs):
    """rebuild the pre-state from the EMPTY circuit through the public API; False if the API refuses"""
    import circuitgraph as cg

    nodes, edges = before
    c = cg.Circuit("rebuilt")
    try:
        for inst, (ins, outs) in bbs.items():
            c.add_blackbox(cg.BlackBox("bbtype_" + inst, list(ins), list(outs)), inst)
        for n, (t, o) in nodes.items():
            if n not in c:
                c.add(n, t)
        for u, v in sorted(edges):
            c.connect(u, v)
        for n, (t, o) in nodes.items():
            c.set_output(n, o)
    except Exception:  # noqa
        return False
    return sg.real_state(c) == (nodes, edges)
