"""C17 - supergate decomposition covers the circuit with independent-input blocks (E1 + concrete set facts)."""
import networkx as nx
import z3

from cgv import families as F
from cgv import sim
from cgv.core import call
from cgv.eq import prove_equal, twin_differs, mutate_one_gate
from cgv.net import Net, build, mkspec, wellformed
from cgv.sem import Sem

META = {
    "level": "translation_validation",
    "engine": "E1 artifact-level SMT: recomposition of the returned supergates (list order; and super-circuit form with every sg_* box replaced by its supergate) proved equal to the original outputs for all valuations; cover / induced wiring / topological order / disjoint fan-in are set comparisons on the same runs (reported as concrete side assertions)",
    "hashseeds": {"quick": [0, 1], "thorough": [0, 1, 2, 3, 4, 5, 6, 7]},
    "shards": {"quick": 8, "thorough": 4},
    "bounds": {
        "quick": "textbook example (Seth/Agrawal), F-shape, F-unit K<=5, c17, 30 random DAGs (<=12 gates); super-circuit form for every single-output restriction of each member",
        "thorough": "same + every circuit with 2 inputs and <=2 gates (1078) + 300 random DAGs + 40 with 24 gates, 8 hash seeds",
    },
    "outside": ["circuits with blackboxes", "circuits outside the families"],
    "assumptions": ["sem.py gate table", "harness-side substitution of supergates into the super-circuit (C06.ref_fill)", "z3 sound"],
}


def textbook():
    I = [(f"i{i}", "input", []) for i in (1, 2, 3, 4, 5, 6, 14, 17)]
    G = [("g7", "nand", ["i1", "i2"]), ("g8", "nand", ["i3", "i4"]), ("g9", "nand", ["i5", "i6"]), ("g10", "not", ["i6"]), ("g11", "nand", ["g7", "g8"]), ("g12", "nand", ["g9", "g10"]),
         ("g13", "nand", ["g11", "g12"]), ("g15", "nand", ["g13", "i14"]), ("g16", "nand", ["g12", "g13"]), ("g18", "nand", ["g15", "i17"]), ("g19", "nand", ["g16", "g18"], True)]
    return (("textbook",), mkspec("textbook", I + G))


# two concrete multi-output circuits on which the ordering of overlapping supergates fails (known finding, hash-seed dependent)
KNOWN = {
    "rnd284": {"name": "rnd284", "nodes": [["i0", "input", False], ["i1", "input", False], ["i2", "input", False], ["i3", "input", False], ["g0", "nor", True], ["g1", "xnor", True], ["g2", "xor", True], ["g3", "and", False], ["g4", "xor", False], ["g5", "or", True]],
               "edges": [["i3", "g0"], ["i0", "g0"], ["i2", "g0"], ["i1", "g0"], ["g0", "g1"], ["i0", "g1"], ["g0", "g2"], ["i1", "g2"], ["g2", "g3"], ["g0", "g3"], ["g0", "g4"], ["i3", "g4"], ["g3", "g4"], ["g4", "g5"], ["g0", "g5"]], "bbs": {}},
    "rnd69": {"name": "rnd69", "nodes": [["i0", "input", False], ["i1", "input", False], ["i2", "input", False], ["i3", "input", False], ["k0", "0", False], ["k1", "1", False], ["g0", "xor", False], ["g1", "nor", False], ["g2", "not", True], ["g3", "xor", False], ["g4", "and", False], ["g5", "nor", True], ["g6", "buf", False], ["g7", "or", True], ["g8", "or", True], ["g9", "buf", False], ["g10", "or", True], ["g11", "buf", True]],
              "edges": [["i1", "g0"], ["i3", "g0"], ["i0", "g1"], ["k0", "g1"], ["i2", "g1"], ["i3", "g1"], ["i0", "g2"], ["g1", "g3"], ["i3", "g3"], ["k0", "g3"], ["g0", "g3"], ["k0", "g4"], ["g0", "g4"], ["g2", "g5"], ["k1", "g5"], ["k1", "g6"], ["k0", "g7"], ["g6", "g7"], ["g0", "g7"], ["g3", "g8"], ["g4", "g8"], ["g6", "g8"], ["k1", "g9"], ["g6", "g10"], ["g9", "g10"], ["g7", "g10"], ["g9", "g11"]], "bbs": {}},
}


def shared_logic(A):
    """known-finding predicate: two different outputs whose cones share a gate (multi-output circuit with shared logic)"""
    g = A.digraph()
    cones = []
    for o in sorted(A.outputs()):
        cones.append({n for n in ({o} | nx.ancestors(g, o)) if A.types[n] != "input"})
    for i in range(len(cones)):
        for j in range(i + 1, len(cones)):
            if cones[i] & cones[j]:
                return True
    return False


def mutual_dependency(nets):
    """root cause of the known finding: the returned blocks overlap such that the block-dependency graph (B -> A when an input
    of A is an internal node of B) is cyclic, i.e. NO listing order of these blocks is topological"""
    internal = [set(n.nodes()) - n.inputs() for n in nets]
    dep = nx.DiGraph()
    dep.add_nodes_from(range(len(nets)))
    for a, n in enumerate(nets):
        for i in n.inputs():
            for b in range(len(nets)):
                if b != a and i in internal[b]:
                    dep.add_edge(b, a)
    return not nx.is_directed_acyclic_graph(dep)


def all_cases(ctx):
    from cgv.props.C03 import x_cases
    wide = [c for c in F.f_unit(8, pairs=False) if c[0][2] >= 6]
    wide_shared = []
    for t in ("and", "nor", "xor"):
        ins = [(f"i{j}", "input", []) for j in range(7)]
        wide_shared.append((("wide_shared", t), mkspec(f"wide_shared_{t}", ins + [("m", "or", ["i0", "i1"]), ("w", t, ["m", "i1", "i2", "i3", "i4", "i5"]), ("v", "and", ["m", "i6"]), ("o", "xor", ["w", "v"], True)])))
    cs = [textbook()] + F.f_shape() + F.f_unit(5) + wide + wide_shared + x_cases() + F.reordered([textbook()] + F.f_shape()) + F.f_rand(ctx.seed, 30 if ctx.quick else 300)
    # nodes named like the helpers limit_fanin (called inside supergates) creates: a netlist that was fan-in limited before
    cs += F.renamed([c for c in F.f_unit(5, pairs=False) if c[0][2] >= 3] + [c for c in F.f_unit(3) if c[0][0] == "pair"][:8], "limit")
    if not ctx.quick:
        import random
        cs += [(("rand24", ctx.seed, i), F.rand_dag(random.Random(f"c17-24-{ctx.seed}-{i}"), n_in=5, n_gates=24, max_arity=3, name=f"r24_{i}")) for i in range(40)]
        cs += F.f_small(2)
    cs.append((("lib", "c17"), "lib:c17"))
    cs += [(("known", k), v) for k, v in sorted(KNOWN.items())]
    return cs


def run(ctx):
    import circuitgraph as cg
    from circuitgraph import tx

    ctx.functions(tx.supergates, tx.limit_fanin, tx.subcircuit)
    for cid, spec in ctx.cases(all_cases(ctx)):
        if isinstance(spec, str):
            spec = Net.of(cg.from_lib(spec.split(":")[1])).spec()
        A = Net.from_spec(spec)
        if wellformed(A) or not A.is_acyclic() or A.bbs or not A.outputs():
            ctx.rejected("family member outside the domain")
            continue
        ctx.sample({"case": cid, "circuit": spec})
        det = {"case": cid, "circuit": spec if len(spec["nodes"]) < 30 else None}
        check_list(ctx, tx, A, spec, det)
        # super-circuit form on each single-output restriction
        outs = sorted(A.outputs())
        for o in outs if (not ctx.quick or len(outs) <= 2) else outs[:2]:
            if A.types[o] == "input":
                ctx.rejected("single output is a primary input: no gate to decompose (super-circuit form rejects it loudly)")
                continue
            s1 = {"name": spec["name"], "nodes": [[n, t, n == o] for n, t, _ in spec["nodes"]], "edges": spec["edges"], "bbs": {}}
            check_super(ctx, tx, Net.from_spec(s1), s1, dict(det, single_output=o))


def check_list(ctx, tx, A, spec, det):
    carg = build(spec)
    sgs, e = call(tx.supergates, carg)
    ctx.unchanged("supergates", carg, spec)
    if e is not None:
        sig = "supergates:multi-output-shared-logic:block-order-cycle" if (type(e).__name__ == "NetworkXUnfeasible" and shared_logic(A)) else sig_raise(e)
        ctx.side("supergates-raises", False, sig, f"supergates raised {e!r}", det)
        return
    nets = [Net.of(s) for s in sgs]
    ctx.count("supergates", len(nets))
    ok = all(len(n.outputs()) == 1 and not n.bbs and n.is_acyclic() for n in nets)
    if not ctx.side("supergates-single-output", ok, "supergates:not-single-output", "a returned supergate is not a single-output blackbox-free acyclic circuit", det):
        return
    g = A.digraph()
    cone = set()
    for o in A.outputs():
        cone |= {o} | nx.ancestors(g, o)
    # union graph of the returned supergates (a sub-graph of the fan-in-limited circuit)
    U = nx.DiGraph()
    produced_by = {}
    for i, n in enumerate(nets):
        for v in n.nodes():
            U.add_node(v)
            for u in n.preds[v]:
                U.add_edge(u, v)
            if v not in n.inputs():
                if v in produced_by:
                    ctx.count("nodes_in_two_supergates")
                produced_by.setdefault(v, i)
    # cover: every gate (non-input) of the output cones is an internal node of some supergate
    gates = {n for n in cone if A.types[n] != "input"}
    # known finding: on a multi-output circuit with shared logic the merged minimal cover drops a block that is still needed
    ctx.side("supergates-cover", gates <= set(produced_by), "supergates:multi-output-shared-logic:uncovered-gate" if shared_logic(A) else "supergates:cover",
             f"gates of the output cones not covered: {sorted(gates - set(produced_by))[:5]}", det)
    # induced wiring: an original gate with <=2 fan-in keeps type and exactly its fan-in
    bad = []
    for i, n in enumerate(nets):
        for v in n.nodes():
            if v in n.inputs():
                continue
            if v in A.types and len(A.preds[v]) <= 2:
                if n.types[v] != A.types[v] or n.preds[v] != A.preds[v]:
                    bad.append((v, n.types[v], n.preds[v]))
    ctx.side("supergates-wiring", not bad, "supergates:wiring", f"supergate wiring differs from the circuit at {bad[:3]}", det)
    # topological order + availability, and solver obligation: recomposition == original outputs
    S = Sem(kleene=A.has_x())
    env = {i: S.var("v!" + i) for i in A.inputs()}
    fa = S.fn(A, env)
    val = dict(env)
    order_ok = True
    for n in nets:
        miss = [i for i in n.inputs() if i not in val]
        if miss:
            order_ok = False
            produced_anywhere = set()
            for n2 in nets:
                produced_anywhere |= set(n2.nodes()) - n2.inputs()
            # known finding: in a multi-output circuit with shared logic the minimal cover drops a block that is still needed, so a
            # block input is produced by NO returned block (an order failure among blocks that are all present is reported)
            dropped = [i for i in miss if i not in produced_anywhere]
            ctx.side("supergates-order", False, "supergates:multi-output-shared-logic:uncovered-gate" if (shared_logic(A) and dropped) else "supergates:not-topological",
                     f"supergate {sorted(n.outputs())} uses {miss[:3]} before any earlier supergate produces it", det)
            break
        fv = S.fn(n, {i: val[i] for i in n.free()})
        for v in n.nodes():
            if v not in n.inputs():
                val[v] = fv[v]
    if order_ok:
        ctx.side("supergates-order", True)
        missing_out = [o for o in A.outputs() if o not in val]
        if ctx.side("supergates-outputs-produced", not missing_out, "supergates:cover", f"outputs not produced by any supergate: {missing_out}", det):
            outs = sorted(A.outputs())

            def replay(m, A=A, nets=nets, S=S, det=det, outs=outs):
                bits = sim.model_bits(m, S.vars)
                free = {i: bits.get("v!" + i, 0) for i in A.inputs()}
                ref = sim.evaluate(A, free)
                v = dict(free)
                for n in nets:
                    r = sim.evaluate(n, {i: v[i] for i in n.free()})
                    for x in n.nodes():
                        if x not in n.inputs():
                            v[x] = r[x]
                bad = [(o, v[o], ref[o]) for o in outs if v[o] != ref[o]]
                return {"reproduced": bool(bad), "sig": "supergates:recomposition-differs", "what": f"recomposed supergates differ from the circuit at outputs {bad[:2]}", "detail": dict(det, inputs=free)}

            ok = ctx.prove("supergates-recompose", [z3.Or([S.neq(val[o], fa[o]) for o in outs])], replay)
            if ok and not A.has_x():
                ctx.twin("twin-supergates", [z3.Or([z3.Xor(val[o], z3.Not(fa[o])) for o in outs])])
    # disjoint (proper) transitive fan-in of the inputs of every supergate, in the fan-in-limited circuit
    bad, strict = [], 0
    for n in nets:
        ins = sorted(n.inputs())
        tf = {i: nx.ancestors(U, i) for i in ins}
        for a in range(len(ins)):
            for b in range(a + 1, len(ins)):
                if tf[ins[a]] & tf[ins[b]]:
                    bad.append((sorted(n.outputs()), ins[a], ins[b]))
                if ({ins[a]} | tf[ins[a]]) & ({ins[b]} | tf[ins[b]]):
                    strict += 1
    ctx.side("supergates-disjoint-inputs", not bad, "supergates:inputs-share-fanin", f"inputs of a supergate share transitive fan-in: {bad[:2]}", det)
    ctx.count("input_pairs_where_one_feeds_the_other", strict - len(bad))


def check_super(ctx, tx, A, spec, det):
    from cgv.props.C06 import ref_fill

    res, e = call(tx.supergates, build(spec), True)
    if e is not None:
        ctx.side("supercircuit-raises", False, sig_raise(e), f"supergates(construct_supercircuit=True) raised {e!r}", det)
        return
    superc, sgmap = res
    P = Net.of(superc).spec()
    ok = set(sgmap) == set(P["bbs"])
    if not ctx.side("supercircuit-map", ok, "supercircuit:map", f"supergate map keys {sorted(sgmap)} != blackboxes {sorted(P['bbs'])}", det):
        return
    try:
        for name in sorted(sgmap):
            P = ref_fill(P, name, Net.of(sgmap[name]).spec())
    except Exception as ex:  # noqa
        ctx.side("supercircuit-fill", False, "supercircuit:unfillable", f"cannot substitute supergate into its box: {ex!r}", det)
        return
    E = Net.from_spec(P)
    if not ctx.side("supercircuit-acyclic", E.is_acyclic() and E.inputs() == A.inputs() and E.outputs() == A.outputs() and set(E.free()) == E.inputs(), "supercircuit:shape",
                    f"filled super-circuit: inputs {sorted(E.inputs())} outputs {sorted(E.outputs())} free {sorted(E.free())[:6]}", det):
        return
    ok = prove_equal(ctx, "supercircuit-equivalent", A, E, [(o, o) for o in sorted(A.outputs())], sig="supercircuit:not-equivalent", what="super-circuit with supergates substituted differs from the original", detail=det)


def sig_raise(e):
    return f"supergates:raises:{type(e).__name__}"
