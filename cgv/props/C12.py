"""C12 - graph queries agree with their graph-theoretic definitions (E2 on a symbolic graph)."""
import z3

from cgv import e2, specs
from cgv import symgraph as sg
from cgv.symgraph import TS

META = {
    "level": "model_checking",
    "engine": "E2 lazy-fork symbolic execution of the real Circuit query methods and props.levelize on a symbolic graph; the value returned on each path is proved equal to a z3 definition (bounded transitive closure, longest-path recurrence, separation) for every pre-state on that path",
    "hashseeds": {"quick": [0], "thorough": [0]},
    "shards": {"quick": 16, "thorough": 16},
    "exhaustive_within_bound": True,
    "bounds": {
        "quick": "fanin_depth/fanout_depth on all DAGs over 5 ordered names; every query on all DAGs on N=4 ordered names (every forward edge symbolic, all nodes present, symbolic types in {input, buf, and, bb_input, bb_output, 0} and output flags); all digraphs without self-loops on 3 names for is_cyclic / topo_sort / the depth functions' and levelize's rejection of cycles; arguments: every single node, 3 node pairs, k in {1,2,3}",
        "thorough": "DAGs on N=5 names, digraphs on 4 names; fanin_depth/fanout_depth additionally on all DAGs over 6 names",
    },
    "outside": ["graphs with more nodes", "minimum=True variants of the depth functions", "Circuit.paths", "the networkx primitives themselves: ancestors/descendants/topological_sort/is_directed_acyclic_graph are harness stubs here, so what is verified is the wrapper logic (which primitive, union over argument lists, str-vs-list handling) and the custom algorithms (depth, levelize, reconvergence, kcuts, startpoints/endpoints); most paths pin every edge bit the query depends on, so the solver mainly confirms per path"],
    "assumptions": ["SymDiGraph stand-in + nx stubs (conformance replay against real networkx on every path, which is where the real networkx primitives are exercised)", "z3 definitions in this file", "z3 sound"],
    "rule": "state = explored path; transition = solver-decided branch",
}

T6 = ["input", "buf", "and", "bb_input", "bb_output", "0"]


def uni(n):
    """ordered universe; the names contain one another as substrings in both directions of the order (n1 < n12 > n2 < n21 > n),
    as N1 / N12 / N21 do in real netlists, so a str argument treated as a container of characters shows"""
    return ["n1", "n12", "n2", "n21", "n", "n121"][:n]


def queries(U, dag):
    qs = []
    singles = list(U)
    pairs = [[U[0], U[-1]], [U[1], U[2]], [U[-1], U[0]]]
    if dag:
        for a in singles + pairs:
            for q in ("fanin", "fanout", "transitive_fanin", "transitive_fanout", "startpoints", "endpoints", "fanin_depth", "fanout_depth"):
                qs.append((q, a))
        qs += [("startpoints", None), ("endpoints", None), ("levelize", None), ("reconvergent_fanout_nodes", None), ("has_reconvergent_fanout", None), ("topo_sort", None), ("is_cyclic", None)]
        for n in singles:
            for k in (1, 2, 3):
                qs.append(("kcuts", (n, k)))
        # histories on ONE circuit / ONE argument object: a query, an in-place edit that keeps the node and edge counts, the query
        # again; two queries with the same set object
        qs.append(("topo_sort_after_edit", None))
    else:
        qs += [("is_cyclic", None), ("topo_sort", None), ("levelize", None), ("fanin_depth", U[0]), ("fanout_depth", U[-1]), ("fanout_depth", [U[0], U[1]])]
        for a in [U[0], [U[0], U[1]], [U[1], U[0]], [U[-1], U[0], U[1]]]:
            qs += [("transitive_fanin", a), ("transitive_fanout", a), ("fanin", a), ("fanout", a)]
    return qs


def all_cases(ctx):
    N = 4 if ctx.quick else 5
    M = 3 if ctx.quick else 4
    cs = []
    if ctx.quick:
        # the custom longest-path visit is order sensitive: depth functions also on all DAGs over 5 ordered names
        U5 = uni(5)
        for q in (("fanout_depth", U5[0]), ("fanin_depth", U5[4])):
            sb = 6
            for k in [int(format(k, f"0{sb}b")[::-1], 2) for k in range(1 << sb)]:
                cs.append(((True, 5, q[0], repr(q[1]), k), (True, U5, q, sb, k)))
    if not ctx.quick:
        # depth functions on ALL DAGs over 6 ordered names (32768 edge patterns): the custom longest-path visit is order sensitive
        U6 = uni(6)
        for q in (("fanout_depth", U6[0]), ("fanin_depth", U6[5]), ("fanout_depth", [U6[0], U6[1]])):
            sb = 10
            for k in [int(format(k, f"0{sb}b")[::-1], 2) for k in range(1 << sb)]:
                cs.append(((True, 6, q[0], repr(q[1]), k), (True, U6, q, sb, k)))
    # two queries with ONE set object (`ends = c.endpoints(sel); starts = c.startpoints(sel)`): the paths of both queries multiply, so
    # these run on all DAGs over 3 names (thorough: 4)
    U3 = uni(3 if ctx.quick else 4)
    for q in (("startpoints_after_endpoints", [U3[0], U3[1]]), ("endpoints_after_startpoints", [U3[1], U3[2]]), ("startpoints_after_endpoints", [U3[-1]]), ("endpoints_after_startpoints", [U3[0]])):
        cs.append(((True, len(U3), q[0], repr(q[1]), 0), (True, U3, q, 0, 0)))
    for dag, n in ((True, N), (False, M)):
        U = uni(n)
        for q in queries(U, dag):
            sb = (5 if ctx.quick else 8) if q[0] in ("endpoints", "startpoints", "levelize", "startpoints_after_endpoints", "endpoints_after_startpoints", "topo_sort_after_edit") else (0 if ctx.quick else 4)
            for k in [int(format(k, f"0{sb}b")[::-1], 2) if sb else 0 for k in range(1 << sb)]:
                cs.append(((dag, n, q[0], repr(q[1]), k), (dag, U, q, sb, k)))
    return cs


def make_op(q):
    name, a = q
    import circuitgraph as cg

    arg = (lambda: (list(a) if isinstance(a, list) else a))
    if name == "levelize":
        return lambda c: cg.props.levelize(c)
    if name == "kcuts":
        return lambda c: [sorted(s) for s in c.kcuts(a[0], a[1])]
    if name == "reconvergent_fanout_nodes":
        return lambda c: set(c.reconvergent_fanout_nodes())
    if name == "topo_sort":
        return lambda c: list(c.topo_sort())
    if name == "topo_sort_after_edit":
        def edit(c):
            first = list(c.topo_sort())
            u, v = first[0], first[1]
            if v in c.fanout(u):  # reverse the edge between the first two nodes of the order (node and edge counts stay the same)
                c.disconnect(u, v)
                try:
                    c.connect(v, u)
                except ValueError:
                    pass  # u cannot take a fan-in: the graph then simply has one edge fewer
            return list(c.topo_sort())
        return edit
    if name in ("startpoints_after_endpoints", "endpoints_after_startpoints"):
        def twice(c):
            sel = set(a)  # ONE set object for both queries, as in `ends = c.endpoints(sel); starts = c.startpoints(sel)`
            if name == "startpoints_after_endpoints":
                c.endpoints(sel)
                return c.startpoints(sel)
            c.startpoints(sel)
            return c.endpoints(sel)
        return twice
    if a is None:
        return lambda c: getattr(c, name)()
    return lambda c: getattr(c, name)(arg())


def run(ctx):
    import circuitgraph as cg
    import circuitgraph.props as cgp

    C = cg.Circuit
    ctx.functions(C.fanin, C.fanout, C.transitive_fanin, C.transitive_fanout, C.startpoints, C.endpoints, C.fanin_depth, C.fanout_depth, C.topo_sort, C.is_cyclic,
                  C.reconvergent_fanout_nodes, C.has_reconvergent_fanout, C.kcuts, cgp.levelize)
    e2.patch_nx()
    for cid, (dag, U, q, sb, k) in ctx.cases(all_cases(ctx)):
        vars_ = sg.make_vars(U, self_loops=False)
        P, T, O, E = vars_
        pre = sg.base_pre(vars_, types=T6, dag_order=U if dag else None)
        pre += [P[n] for n in U]
        # bb_output/inputs/constants have no fan-in (lint-legal sources) so that levelize's domain is the property's
        A = e2.acc_pre(vars_)
        for v in U:
            pre.append(z3.Implies(specs.is_in(T[v], [TS["input"], TS["0"], TS["bb_output"]]), z3.And([z3.Not(E[(u, v)]) for u in U if u != v])))
        op = make_op(q)

        cache = {}

        def posts(pre_, post, out, names, c, q=q, U=U, dag=dag, cache=cache):
            if q[0] == "topo_sort_after_edit":
                # the order returned AFTER the edit must be a topological order of the edited graph (post-state)
                if out.kind != "ok":
                    return [("topo-after-edit", z3.BoolVal(False), "query:topo_sort:raises", f"topo_sort / levelize / the edit raised {out.exc}: {out.ret}")]
                order = list(out.ret)
                okp = sorted(order) == sorted(U)
                pos = {n: i for i, n in enumerate(order)}
                f = z3.And([z3.BoolVal(okp)] + [z3.Implies(post.edge(u, v), z3.BoolVal(okp and pos.get(u, 0) < pos.get(v, 0))) for u in U for v in U if u != v])
                return [("topo-after-edit", f, "query:topo_sort:stale-after-edit", f"after reversing an edge in place topo_sort returned {order}: not a topological order of the edited graph")]
            return _posts(pre_, post, out, names, c, q, U, dag, cache) + no_write(c, q[0])

        def _posts(pre_, post, out, names, c, q=q, U=U, dag=dag, cache=cache):
            # the reference terms depend on the pre-state accessors only: build them once per case (and once per concrete replay)
            if not isinstance(pre_, e2.Acc) or getattr(pre_, "concrete", False):
                return spec(q, U, dag, pre_, out, {})
            return spec(q, U, dag, pre_, out, cache.setdefault(id(pre_), {}))

        st = e2.run(ctx, q[0], U, vars_, pre, {}, op, posts, detail={"case": cid}, normalize_ret=norm, split=(sb, k))
        ctx.sample({"case": cid, "universe": U, "query": f"{q[0]}({q[1]})", "paths": st["paths"]})


def no_write(c, name):
    """a query must not write to the circuit it is called on: on the symbolic graph the write log must be empty (holds for every
    pre-state of the path); on a real graph (replay) this is covered by the conformance comparison of the states"""
    g = c.graph
    if not getattr(g, "is_symbolic", False):
        return []
    clean = not g.wnode and not g.wattr and not g.wedge and not g.created
    return [("no-write", z3.BoolVal(clean), f"query:{name}:writes-to-circuit", f"{name} modified the circuit it was called on")]


def norm(k):
    """topological orders are not unique; kcuts order is irrelevant: compare outcome kind only for those"""
    return k


def spec(q, U, dag, S, out, cache):
    name, a = q
    name = {"startpoints_after_endpoints": "startpoints", "endpoints_after_startpoints": "endpoints"}.get(name, name)
    edge = lambda u, v: S.edge(u, v) if u != v else z3.BoolVal(False)
    idx = {n: i for i, n in enumerate(U)}
    if "R" not in cache:
        cache["R"] = specs.reach_plus(U, S.present, edge)
    R = cache["R"]
    Rs = lambda u, v: z3.BoolVal(True) if u == v else R[(u, v)]
    cyc = z3.Or([R[(n, n)] for n in U])
    ns = [a] if isinstance(a, str) else (list(a) if isinstance(a, list) else None)

    def setspec(tag, member, sig):
        if out.kind != "ok":
            return [(tag, z3.BoolVal(False), f"query:{name}:raises", f"{name}({a}) raised {out.exc}: {out.ret}")]
        ret = out.ret
        ok_type = isinstance(ret, (set, frozenset, list))
        if not ok_type:
            return [(tag, z3.BoolVal(False), sig, f"{name}({a}) returned {ret!r}")]
        extra = [x for x in ret if x not in U]
        return [(tag, z3.And([z3.BoolVal(v in ret) == member(v) for v in U] + [z3.BoolVal(not extra)]), sig, f"{name}({a}) returned {sorted(ret)} which is not the defined set")]

    def must_raise(kind):
        return [("rejects-cycle", z3.Implies(cyc, z3.BoolVal(out.kind == "raise" and out.exc in kind)), f"query:{name}:accepts-cycle", f"{name} on a cyclic graph: {out.kind} {out.exc}")]

    if name == "fanin":
        return setspec("fanin", lambda v: z3.Or([edge(v, n) for n in ns]), "query:fanin")
    if name == "fanout":
        return setspec("fanout", lambda v: z3.Or([edge(n, v) for n in ns]), "query:fanout")
    if name == "transitive_fanin":  # union of the proper ancestors of each listed node (a node on a cycle is not its own ancestor)
        return setspec("tfi", lambda v: z3.Or([R[(v, n)] for n in ns if n != v] + [z3.BoolVal(False)]), "query:transitive_fanin")
    if name == "transitive_fanout":
        return setspec("tfo", lambda v: z3.Or([R[(n, v)] for n in ns if n != v] + [z3.BoolVal(False)]), "query:transitive_fanout")
    if name == "startpoints":
        isp = lambda v: specs.is_in(S.typ(v), [TS["input"], TS["bb_output"]])
        if ns is None:
            return setspec("startpoints", isp, "query:startpoints")
        return setspec("startpoints", lambda v: z3.And(isp(v), z3.Or([Rs(v, n) for n in ns])), "query:startpoints")
    if name == "endpoints":
        iep = lambda v: z3.Or(S.out(v), S.typ(v) == TS["bb_input"])
        if ns is None:
            return setspec("endpoints", iep, "query:endpoints")
        return setspec("endpoints", lambda v: z3.And(iep(v), z3.Or([Rs(n, v) for n in ns])), "query:endpoints")
    if name in ("fanin_depth", "fanout_depth"):
        if not dag:
            return must_raise(("ValueError",)) + ([] if out.kind == "raise" else [("acyclic-value", z3.Implies(z3.Not(cyc), z3.BoolVal(isinstance(out.ret, int))), f"query:{name}", "non-int depth")])
        if out.kind != "ok" or not isinstance(out.ret, int):
            return [("depth", z3.BoolVal(False), f"query:{name}:raises", f"{name}({a}) -> {out.kind} {out.exc} {out.ret}")]
        # longest path from any node of ns (forward for fanout_depth, backward for fanin_depth)
        fwd = name == "fanout_depth"
        order = U if fwd else list(reversed(U))
        L = {}
        for v in order:
            cands = []
            for u in order[: order.index(v)]:
                e = edge(u, v) if fwd else edge(v, u)
                cands.append((z3.And(e, L[u] >= 0), L[u] + 1))
            val = z3.IntVal(0) if v in ns else z3.IntVal(-1)
            for cnd, x in cands:
                val = z3.If(z3.And(cnd, x > val), x, val)
            L[v] = val
        best = z3.IntVal(0)
        for v in U:
            best = z3.If(L[v] > best, L[v], best)
        return [("depth", best == out.ret, f"query:{name}", f"{name}({a}) returned {out.ret} which is not the longest path length")]
    if name == "levelize":
        if not dag:
            return must_raise(("ValueError",))
        if out.kind != "ok" or not isinstance(out.ret, dict):
            return [("levels", z3.BoolVal(False), sig_levelize(out), f"levelize -> {out.kind} {out.exc}: {out.ret}")]
        L = {}
        for v in U:
            val = z3.IntVal(0)
            for u in U[: idx[v]]:
                val = z3.If(z3.And(edge(u, v), L[u] + 1 > val), L[u] + 1, val)
            L[v] = val
        return [("levels", z3.And([z3.BoolVal(set(out.ret) == set(U))] + [L[v] == out.ret.get(v, -99) for v in U]), "query:levelize", f"levelize returned {out.ret}: not the longest path length to a source")]
    if name == "topo_sort":
        if not dag:
            base = must_raise(("NetworkXUnfeasible",))
            if out.kind != "ok":
                return base
        if out.kind != "ok":
            return [("topo", z3.BoolVal(False), "query:topo_sort:raises", f"topo_sort raised {out.exc}")]
        order = list(out.ret)
        okp = sorted(order) == sorted(U)
        pos = {n: i for i, n in enumerate(order)}
        f = z3.And([z3.BoolVal(okp)] + [z3.Implies(edge(u, v), z3.BoolVal(okp and pos.get(u, 0) < pos.get(v, 0))) for u in U for v in U if u != v])
        return ([] if dag else must_raise(("NetworkXUnfeasible",))) + [("topo", f, "query:topo_sort", f"topo_sort returned {order}: not a topological order")]
    if name == "is_cyclic":
        if out.kind != "ok":
            return [("is_cyclic", z3.BoolVal(False), "query:is_cyclic:raises", f"is_cyclic raised {out.exc}")]
        return [("is_cyclic", z3.BoolVal(bool(out.ret)) == cyc, "query:is_cyclic", f"is_cyclic returned {out.ret}")]
    if name in ("reconvergent_fanout_nodes", "has_reconvergent_fanout"):
        def rec(n):
            alts = []
            for a_ in U:
                for b_ in U:
                    if idx[a_] < idx[b_]:
                        alts.append(z3.And(edge(n, a_), edge(n, b_), z3.Or([z3.And(Rs(a_, w), Rs(b_, w)) for w in U])))
            return z3.Or(alts) if alts else z3.BoolVal(False)
        if name == "reconvergent_fanout_nodes":
            return setspec("reconvergent", rec, "query:reconvergent_fanout_nodes")
        if out.kind != "ok":
            return [("has-reconvergent", z3.BoolVal(False), "query:has_reconvergent_fanout:raises", f"raised {out.exc}")]
        return [("has-reconvergent", z3.BoolVal(bool(out.ret)) == z3.Or([rec(n) for n in U]), "query:reconvergent_fanout_nodes", f"has_reconvergent_fanout returned {out.ret}")]
    if name == "kcuts":
        n, k = a
        if out.kind != "ok":
            return [("kcuts", z3.BoolVal(False), "query:kcuts:raises", f"kcuts{a} raised {out.exc}: {out.ret}")]
        cuts = [set(c_) for c_ in out.ret]
        fs = [z3.BoolVal({n} in cuts)]
        for C_ in cuts:
            if C_ == {n}:
                continue
            fs.append(z3.BoolVal(len(C_) <= k and C_ <= set(U)))
            Av = {}
            for v in reversed(U):
                if v in C_:
                    Av[v] = z3.BoolVal(False)
                elif v == n:
                    Av[v] = z3.BoolVal(True)
                else:
                    Av[v] = z3.Or([z3.And(edge(v, w), Av[w]) for w in U[idx[v] + 1:]]) if U[idx[v] + 1:] else z3.BoolVal(False)
            for s in U:
                is_source = z3.And([z3.Not(edge(u, s)) for u in U if u != s])
                fs.append(z3.Implies(is_source, z3.Not(Av[s])))
        return [("kcuts", z3.And(fs), "query:kcuts", f"kcuts{a} returned {sorted(map(sorted, cuts))}: a set is larger than k or does not separate {n} from the sources")]
    raise ValueError(name)


def sig_levelize(out):
    if out.kind == "raise" and out.exc == "ValueError" and "max()" in str(out.ret):
        return "query:levelize:source-without-level"
    return "query:levelize:raises"
