"""C09 - unroll / sequential_unroll equal iterated execution (E1)."""
import itertools
import random

import z3

from cgv import families as F
from cgv import sim
from cgv.core import call
from cgv.net import Net, build, wellformed
from cgv.sem import Sem

META = {
    "level": "translation_validation",
    "engine": "E1 artifact-level SMT: io_map nodes of the unrolled circuit proved equal to the t+1-fold symbolic iteration of the step function, all initial states and input sequences",
    "hashseeds": {"quick": [0, 1], "thorough": [0, 1, 2, 3, 4, 5, 6, 7]},
    "shards": {"quick": 8, "thorough": 4},
    "bounds": {
        "quick": "unroll: F-shape + 20 random DAGs, up to 6 injective output->input pairings (1..3 pairs) each, n=1..4; sequential_unroll: 3 sequential circuits (1,2,3 flops; ff(clk,d,q) and dff(CK,D,Q) boxes) x n=1..4 x add_flop_outputs x initial_values in {None,'0','1',dict} x remove_unloaded x ignore_pins in {None, clock pin}; ALL initial states and input sequences",
        "thorough": "unroll: 150 random DAGs, up to 12 pairings, n=1..6; sequential_unroll n=1..6, dict initial values including 'x'",
    },
    "outside": ["state pairings that are not output->input", "circuits whose blackboxes are of more than one type", "circuits outside the families"],
    "assumptions": ["sem.py gate table / Kleene table", "z3 sound"],
}


def pairings(A, rng, limit):
    outs = sorted(o for o in A.outputs() if A.types[o] != "input")
    ins = sorted(A.inputs())
    allp = []
    # outputs that are primary inputs too can be state outputs; chains and hold pairs make a node key AND value
    io = sorted(o for o in A.outputs() if A.types[o] == "input")
    special = []
    for a in io:
        special.append({a: a})
        for b in ins:
            if b != a:
                special.append({a: b})
                for o in outs:
                    special.append({o: a, a: b})
    for k in (1, 2, 3):
        if k > len(outs) or k > len(ins):
            break
        for ks in itertools.combinations(outs, k):
            for vs in itertools.permutations(ins, k):
                allp.append(dict(zip(ks, vs)))
    if len(allp) > limit:
        allp = rng.sample(allp, limit)
    return allp + special[:6]


def all_cases(ctx):
    cs = []
    base = F.f_shape() + F.reordered(F.f_shape()[:8]) + F.f_rand(ctx.seed, 20 if ctx.quick else 150) + F.renamed([c for c in F.f_unit(3) if c[0][0] == "pair"][:6], "unroll2") + F.renamed(F.f_shape()[:4], "unroll")
    for cid, spec in base:
        cs.append((("unroll",) + cid, ("unroll", spec)))
    for cid, spec, d, q in F.seq_circuits():
        for afo in (False, True):
            for iv in ("none", "0", "1", "dict", "dictrev", "dictpartial") + (() if ctx.quick else ("dictx",)):
                for ru in (False, True):
                    for ign in (False, True):
                        cs.append((cid + (afo, iv, ru, ign), ("seq", spec, d, q, afo, iv, ru, ign)))
    return cs


def run(ctx):
    from circuitgraph import tx

    ctx.functions(tx.unroll, tx.sequential_unroll, tx.strip_blackboxes)
    NS = (1, 2, 3, 4) if ctx.quick else (1, 2, 3, 4, 5, 6)
    for cid, p in ctx.cases(all_cases(ctx)):
        if p[0] == "unroll":
            do_unroll(ctx, tx, cid, p[1], NS)
        else:
            do_seq(ctx, tx, cid, p, NS)


def iterate_ref(S, A, n, state_vars, step_inputs, next_state):
    """state_vars: node->value at t=0; step_inputs(t): node->value; next_state(val_t) -> node->value"""
    vals = []
    st = dict(state_vars)
    for t in range(n):
        env = dict(step_inputs(t))
        env.update(st)
        v = S.fn(A, env)
        vals.append(v)
        st = next_state(v)
    return vals


def do_unroll(ctx, tx, cid, spec, NS):
    A = Net.from_spec(spec)
    if wellformed(A) or not A.is_acyclic() or A.bbs:
        ctx.rejected("family member outside the domain")
        return
    rng = random.Random(f"c09-{ctx.seed}-{cid}")
    ps = pairings(A, rng, 6 if ctx.quick else 12)
    ctx.sample({"case": cid, "circuit": spec, "pairings": ps[:2]})
    ios = sorted(A.inputs() | A.outputs())
    for state_io in ps:
        state_io_obj = dict(state_io)  # ONE dict object for all n, as a caller who loops over n passes it
        for n in NS:
            det = {"case": cid, "circuit": spec if len(spec["nodes"]) < 25 else None, "state_io": state_io, "n": n}
            carg = build(spec)
            res, e = call(tx.unroll, carg, n, state_io_obj)
            ctx.unchanged("unroll", carg, spec)
            if e is not None:
                ctx.side("unroll-raises", False, f"unroll:raises:{type(e).__name__}", f"unroll raised {e!r}", det)
                continue
            uc, io_map = res
            U = Net.of(uc)
            okmap = isinstance(io_map, dict) and set(io_map) == set(ios) and all(len(v) == n and all(x in U.types for x in v) for v in io_map.values())
            if not ctx.side("unroll-iomap", okmap and U.is_acyclic(), "unroll:io_map", "io_map does not list one node of the result per io name and step", det):
                continue
            S = Sem(kleene=A.has_x())
            svars = set(state_io.values())
            s0 = {v: S.var(f"s0!{v}") for v in svars}
            xs = {(t, i): S.var(f"x!{t}!{i}") for t in range(n) for i in A.inputs() if i not in svars}
            ref = iterate_ref(S, A, n, s0, lambda t: {i: xs[(t, i)] for i in A.inputs() if i not in svars},
                              lambda v: {vv: v[k] for k, vv in state_io.items()})
            exp_free = {io_map[v][0]: f"s0!{v}" for v in svars}
            for (t, i) in xs:
                exp_free[io_map[i][t]] = f"x!{t}!{i}"
            ctx.side("unroll-free-inputs", U.inputs() == set(exp_free) and set(U.free()) == set(exp_free), "unroll:free-inputs",
                     f"free inputs of the unrolled circuit {sorted(U.free())} != step-0 state inputs + per-step copies {sorted(exp_free)}", det)
            envu = {f: S.var(exp_free.get(f, "u!" + f)) for f in U.free()}
            fu = S.fn(U, envu)
            pairs = [(io, t) for io in ios for t in range(n)]
            diff = z3.Or([S.neq(fu[io_map[io][t]], ref[t][io]) for io, t in pairs])

            def replay(m, S=S, U=U, A=A, io_map=io_map, state_io=state_io, n=n, exp_free=exp_free, det=det, pairs=pairs, svars=svars):
                bits = sim.model_bits(m, S.vars)
                uv = sim.evaluate(U, {f: bits.get(exp_free.get(f, "u!" + f), 0) for f in U.free()})
                st = {v: bits.get(f"s0!{v}", 0) for v in svars}
                bad = []
                for t in range(n):
                    free = {i: bits.get(f"x!{t}!{i}", 0) for i in A.inputs() if i not in svars}
                    free.update(st)
                    v = sim.evaluate(A, free)
                    for io in io_map:
                        if uv[io_map[io][t]] != v[io]:
                            bad.append((io, t, uv[io_map[io][t]], v[io]))
                    st = {vv: v[k] for k, vv in state_io.items()}
                d = dict(det)
                d.update({"valuation": bits, "bad": bad[:5]})
                return {"reproduced": bool(bad), "sig": "unroll:not-iterated-execution", "what": f"unroll: io_map node differs from iterated execution at (io, step, got, expected) {bad[:1]}", "detail": d}

            ok = ctx.prove("unroll-iterated", [diff], replay)
            ctx.side("unroll-outputs", U.outputs() == {io_map[o][t] for o in A.outputs() for t in range(n)}, "unroll:outputs", "outputs of the unrolled circuit are not the per-step copies of the outputs", det)
            if ok and n >= 2 and state_io:
                # twin: reference shifted by one step must be refuted
                k0 = sorted(state_io)[0]
                ctx.count("twins_attempted")
                s = z3.Solver()
                s.add(S.neq(fu[io_map[k0][1]], ref[0][k0]))
                if s.check() == z3.sat:
                    ctx.twin("twin-unroll-shift", [S.neq(fu[io_map[k0][1]], ref[0][k0])])


def do_seq(ctx, tx, cid, p, NS):
    _, spec, dport, qport, afo, iv, ru, ign = p
    A = Net.from_spec(spec)
    flops = sorted(A.bbs)
    bbt = A.bbs[flops[0]]
    clkpins = [x for x in bbt[1] if x != dport]
    if iv == "none":
        init = None
    elif iv in ("0", "1"):
        init = iv
    elif iv == "dict":
        init = {f: "01"[i % 2] for i, f in enumerate(flops)}
    elif iv == "dictrev":
        init = {f: "10"[i % 2] for i, f in reversed(list(enumerate(flops)))}
    elif iv == "dictpartial":
        init = {flops[-1]: "1"}
    else:
        init = {f: "x01"[i % 3] for i, f in enumerate(flops)}
    ctx.sample({"case": cid, "circuit": spec})
    shared = build(spec)  # the SAME circuit object is unrolled for every n (a call must not disturb the next one)
    init_obj = dict(init) if isinstance(init, dict) else init  # likewise ONE initial_values / ignore_pins object for every n
    ign_obj = list(clkpins) if ign else None
    for n in NS:
        det = {"case": cid, "circuit": spec, "n": n, "add_flop_outputs": afo, "initial_values": init, "remove_unloaded": ru, "ignore_pins": clkpins if ign else None}
        res, e = call(tx.sequential_unroll, shared, n, dport, qport, ignore_pins=ign_obj, add_flop_outputs=afo, initial_values=init_obj, remove_unloaded=ru)
        ctx.unchanged("sequential_unroll", shared, spec)
        if e is not None:
            ctx.side("sequnroll-raises", False, f"sequential_unroll:raises:{type(e).__name__}", f"sequential_unroll raised {e!r}", det)
            continue
        uc, io_map = res
        U = Net.of(uc)
        kle = isinstance(init, dict) and "x" in init.values()
        S = Sem(kleene=kle or U.has_x())
        dname = {f: f"{f}_{dport}" for f in flops}
        qname = {f: f"{f}_{qport}" for f in flops}
        need = set(A.outputs()) | set(dname.values()) | set(qname.values())
        okmap = isinstance(io_map, dict) and need <= set(io_map) and all(len(v) == n and all(x in U.types for x in v) for v in io_map.values())
        if not ctx.side("sequnroll-iomap", okmap and U.is_acyclic(), "sequential_unroll:io_map", f"io_map lacks entries / nodes for {sorted(need - set(io_map or {}))}", det):
            continue
        # inputs of c that may legitimately be absent: loaded only by non-D flop pins (clock etc.)
        pin_nodes = {f"{f}.{x}" for f in flops for x in bbt[1] if x != dport}
        dead_ok = {i for i in A.inputs() if all(w in pin_nodes for w in A.succs[i])}
        missing = A.inputs() - set(io_map)
        ctx.side("sequnroll-inputs-kept", missing <= (dead_ok if ru else set()), "sequential_unroll:input-dropped", f"inputs missing from io_map: {sorted(missing)}", det)
        if init is None:
            q0 = {f: S.var(f"q0!{f}") for f in flops}
        else:
            q0 = {f: (S.const(init if isinstance(init, str) else init[f]) if (isinstance(init, str) or f in init) else S.var(f"q0!{f}")) for f in flops}
        xs = {(t, i): S.var(f"x!{t}!{i}") for t in range(n) for i in A.inputs()}
        ref = iterate_ref(S, A, n, {f"{f}.{qport}": q0[f] for f in flops}, lambda t: dict({i: xs[(t, i)] for i in A.inputs()}, **{f"{f}.{o}": S.var(f"o!{t}!{f}.{o}") for f in flops for o in bbt[2] if o != qport}),
                          lambda v: {f"{f}.{qport}": v[f"{f}.{dport}"] for f in flops})
        exp_free = {}
        for i in A.inputs():
            if i in io_map:
                for t in range(n):
                    exp_free[io_map[i][t]] = f"x!{t}!{i}"
        for f in flops:
            if init is None or (isinstance(init, dict) and f not in init):
                exp_free[io_map[qname[f]][0]] = f"q0!{f}"
        ctx.side("sequnroll-free-inputs", U.inputs() == set(exp_free) and set(U.free()) == set(exp_free), "sequential_unroll:free-inputs",
                 f"free inputs {sorted(U.free())} != per-step inputs + free initial state {sorted(exp_free)}", det)
        exp_out = {io_map[o][t] for o in A.outputs() for t in range(n)} | ({io_map[dname[f]][t] for f in flops for t in range(n)} if afo else set())
        ctx.side("sequnroll-outputs", U.outputs() == exp_out, "sequential_unroll:outputs", f"outputs {sorted(U.outputs())} != expected {sorted(exp_out)} (add_flop_outputs={afo})", det)
        gone = [x for x in U.types if any(x.startswith(f"unrolled_{t}_{f}_{pn}") for t in range(n) for f in flops for pn in clkpins)]
        ctx.side("sequnroll-ignored-pins", not gone, "sequential_unroll:pins-not-removed", f"non-D/Q pins survive: {gone[:3]}", det)
        envu = {f: S.var(exp_free.get(f, "u!" + f)) for f in U.free()}
        fu = S.fn(U, envu)
        obs = [(o, o) for o in sorted(A.outputs())] + [(dname[f], f"{f}.{dport}") for f in flops] + [(qname[f], f"{f}.{qport}") for f in flops] + [(i, i) for i in sorted(A.inputs()) if i in io_map]
        diff = z3.Or([S.neq(fu[io_map[k][t]], ref[t][r]) for k, r in obs for t in range(n)])

        def replay(m, S=S, U=U, A=A, io_map=io_map, n=n, exp_free=exp_free, det=det, obs=obs, flops=flops, init=init, qport=qport, dport=dport, bbt=bbt):
            bits = sim.model_bits(m, S.vars)
            uv = sim.evaluate(U, {f: bits.get(exp_free.get(f, "u!" + f), 0) for f in U.free()})

            def cv(x):
                return "x" if x == "x" else int(x)
            st = {}
            for f in flops:
                if init is None or (isinstance(init, dict) and f not in init):
                    st[f"{f}.{qport}"] = bits.get(f"q0!{f}", 0)
                else:
                    st[f"{f}.{qport}"] = cv(init if isinstance(init, str) else init[f])
            bad = []
            for t in range(n):
                free = {i: bits.get(f"x!{t}!{i}", 0) for i in A.inputs()}
                for f in flops:
                    for o in bbt[2]:
                        if o != qport:
                            free[f"{f}.{o}"] = bits.get(f"o!{t}!{f}.{o}", 0)
                free.update(st)
                v = sim.evaluate(A, free)
                for k, r in obs:
                    if uv[io_map[k][t]] != v[r]:
                        bad.append((k, t, uv[io_map[k][t]], v[r]))
                st = {f"{f}.{qport}": v[f"{f}.{dport}"] for f in flops}
            d = dict(det)
            d.update({"valuation": bits, "bad": bad[:5]})
            return {"reproduced": bool(bad), "sig": "sequential_unroll:not-cycle-accurate", "what": f"sequential_unroll differs from cycle-accurate simulation at (io, step, got, expected) {bad[:1]}", "detail": d}

        ok = ctx.prove("sequnroll-cycle-accurate", [diff], replay)
        if ok and n >= 2:
            f0 = flops[0]
            ctx.twin("twin-seq-shift", [S.neq(fu[io_map[qname[f0]][1]], ref[0][f"{f0}.{qport}"])]) if init is None else None
