"""C05 - limit_fanin / limit_fanout / insert_registers / acyclic_unroll(DAG) preserve function (E1)."""
import z3

from cgv import families as F
from cgv.core import call
from cgv.eq import mutate_one_gate, prove_equal, twin_differs
from cgv.net import Net, build, mkspec, wellformed

META = {
    "level": "translation_validation",
    "engine": "E1 artifact-level SMT: every original node of the transformed circuit is proved equal to the original for all valuations; plus an E2 tier in which the circuit STRUCTURE itself is symbolic for limit_fanin/limit_fanout",
    "hashseeds": {"quick": [0, 1], "thorough": [0, 1, 2, 3, 4, 5, 6, 7]},
    "shards": {"quick": 8, "thorough": 4},
    "bounds": {
        "quick": "SYMBOLIC STRUCTURE (E2): limit_fanin / limit_fanout (k=2) run on EVERY lint-clean blackbox-free circuit over N=4 ordered names at once (presence, the 11 types, output flags and all forward edges are z3 variables; function preservation for all valuations, bound k and io decided per path by z3); plus E1 families: F-unit with arity 1..8 (all 6 multi-input types), type pairs, fan-out stars with 1..8 loads, F-shape, F-bb, 30 random DAGs (<=12 gates); k=2..5; insert_registers stages 1..3 with every inserted flop made transparent; acyclic_unroll on every acyclic blackbox-free member; ALL input / blackbox-output valuations",
        "thorough": "symbolic structure N=4 (k=2) and N=5 (k=2,3); E1: same + 300 random DAGs + 60 DAGs with 24 gates, 8 hash seeds",
    },
    "outside": ["circuits outside the families", "k > 5", "hash seeds not listed", "num_stages for which round(max_depth/(stages+1)) == 0 (no stage boundary; the call raises)"],
    "assumptions": ["sem.py gate table (Kleene dual-rail when a constant x is present)", "z3 sound"],
}


def star(k, t):
    I = [("a", "input", []), ("b", "input", []), ("n", t, ["a", "b"] if t not in ("buf", "not") else ["a"])]
    loads = [(f"l{i}", ["buf", "not", "and", "or", "xor", "nand", "nor", "xnor"][i % 8], ["n"] + (["b"] if i % 8 >= 2 else []), True) for i in range(k)]
    return (("star", t, k), mkspec(f"star_{t}_{k}", I + loads))


def all_cases(ctx):
    cs = F.f_unit(8) + F.f_shape() + F.f_bb() + F.reordered(F.f_shape() + F.f_bb())
    cs += [star(k, t) for k in range(1, 9) for t in ("and", "buf", "xor")]
    cs += [star(7, "input_star")] if False else []
    # an input with many loads
    cs.append((("star", "input", 7), mkspec("star_input", [("a", "input", [])] + [(f"l{i}", "not" if i % 2 else "buf", ["a"], True) for i in range(7)])))
    cs += F.renamed([c for c in F.f_unit(5, pairs=False) if c[0][2] >= 3], "limit")
    cs += F.renamed([c for c in F.f_unit(3) if c[0][0] == "pair"][:10], "regs")
    cs += F.f_rand(ctx.seed, 30 if ctx.quick else 300) + F.f_rand_bb(ctx.seed, 12 if ctx.quick else 100)
    if not ctx.quick:
        import random
        cs += [(("rand24", ctx.seed, i), F.rand_dag(random.Random(f"c05-24-{ctx.seed}-{i}"), n_in=4, n_gates=24, name=f"r24_{i}")) for i in range(60)]
        cs += F.f_small(2)
    return cs


def transparent(net, flop_type="ff", d="d", q="q"):
    """reference-side rewrite: every flop instance becomes a wire from its d pin to its q pin"""
    s = net.spec()
    for inst, (bbn, ins, outs) in net.bbs.items():
        if bbn != flop_type:
            continue
        drv = net.preds.get(f"{inst}.{d}", [])
        for nd in s["nodes"]:
            if nd[0] == f"{inst}.{q}":
                nd[1] = "buf"
        for u in drv:
            s["edges"].append([u, f"{inst}.{q}"])
    return Net.from_spec(s)


def sym_cases(ctx):
    """symbolic-STRUCTURE tier (E2): every lint-clean blackbox-free circuit over N ordered names at once"""
    out = []
    for fn in ("limit_fanin", "limit_fanout"):
        for N, k in ([(4, 2)] if ctx.quick else [(4, 2), (5, 2), (5, 3)]):
            sb = 4 if N == 4 else 8
            for j in [int(format(j, f"0{sb}b")[::-1], 2) for j in range(1 << sb)]:
                out.append((("sym", fn, N, k, j), ("sym", fn, N, k, sb, j)))
    return out


SYM_TYPES = ["input", "0", "1", "buf", "not", "and", "nand", "or", "nor", "xor", "xnor"]


def run_sym(ctx, cid, fn, N, k, sb, j):
    import networkx as nx
    import z3
    from circuitgraph import tx
    from cgv import e2, specs
    from cgv import symgraph as sg
    from cgv.symgraph import TS

    U = [f"n{i}" for i in range(N)]
    vars_ = sg.make_vars(U, self_loops=False)
    P, T, O, E = vars_
    A = e2.acc_pre(vars_)
    pre = sg.base_pre(vars_, types=SYM_TYPES, dag_order=U)
    pre.append(specs.legal_wiring(U, A.present, A.typ, A.edge))
    for v in U:  # lint-clean: every gate is driven
        pre.append(z3.Implies(z3.And(P[v], z3.Not(specs.is_in(T[v], [TS["input"], TS["0"], TS["1"]]))), z3.Or([E[(u, v)] for u in U if u != v])))
    X = {n: z3.Bool(f"X!{n}") for n in U}
    f = getattr(tx, fn)
    idx = {n: i for i, n in enumerate(U)}
    base_val = {}

    def posts(pre_, post_unused, out, names, c, U=U, k=k, fn=fn):
        if out.kind != "ok":
            return [("returns", z3.BoolVal(False), f"{fn}:raises:{out.exc}", f"{fn}(k={k}) raised {out.exc}: {out.ret}")]
        r = out.ret
        if getattr(r.graph, "is_symbolic", False):
            post = e2.acc_sym(r.graph)
            pnames = r.graph.names()
            concrete_edges = {kk for kk, vv in r.graph.wedge.items() if vv}
        else:
            st = sg.real_state(r)
            post = e2.acc_real(st)
            pnames = list(U) + [n for n in st[0] if n not in U]
            concrete_edges = set(st[1])
        created = [n for n in pnames if n not in U]

        def possible(u, v):
            if u in idx and v in idx:
                return idx[u] < idx[v]
            return (u, v) in concrete_edges
        gg = nx.DiGraph()
        gg.add_nodes_from(pnames)
        gg.add_edges_from((u, v) for u in pnames for v in pnames if u != v and possible(u, v))
        if not nx.is_directed_acyclic_graph(gg):
            return [("acyclic", z3.BoolVal(False), f"{fn}:cyclic", f"{fn} produced a cycle")]
        order = list(nx.lexicographical_topological_sort(gg))
        Xp = dict(X)
        Xp.update({n: z3.BoolVal(False) for n in created})
        key = id(pre_)
        if key not in base_val or getattr(pre_, "concrete", False):
            v0 = specs.sym_values(U, pre_, X)
            if not getattr(pre_, "concrete", False):
                base_val[key] = v0
        else:
            v0 = base_val[key]
        v1 = specs.sym_values(order, post, Xp, possible)
        res = []
        same = z3.And([z3.Implies(pre_.present(n), z3.And(post.present(n), v1[n] == v0[n])) for n in U])
        res.append(("function-preserved", same, f"{fn}:function-changed", f"{fn}(k={k}) changed the function of an original node"))
        io = z3.And([z3.Implies(pre_.present(n), z3.And(post.typ(n) == pre_.typ(n), post.out(n) == pre_.out(n))) for n in U]
                    + [z3.Implies(post.present(n), z3.And(z3.Not(post.out(n)), post.typ(n) != TS["input"])) for n in created]
                    + [z3.Implies(post.present(n), pre_.present(n)) for n in U])
        res.append(("io-unchanged", io, f"{fn}:io-changed", f"{fn}(k={k}) changed inputs/outputs/types of original nodes"))
        if fn == "limit_fanin":
            bound = z3.And([specs.count(z3.And(post.present(u), post.edge(u, v)) for u in pnames if u != v) <= k for v in pnames])
            res.append(("fanin-bound", bound, "limit_fanin:fanin-above-k", f"limit_fanin(k={k}) left a gate with more than {k} fan-in"))
        else:
            bound = z3.And([specs.count(z3.And(post.present(w), post.edge(v, w)) for w in pnames if w != v) <= k for v in pnames])
            res.append(("fanout-bound", bound, "limit_fanout:fanout-above-k", f"limit_fanout(k={k}) left a node with more than {k} loads"))
        return res

    def conf_extra(out, rout, m):
        if out.kind != "ok" or rout.kind != "ok":
            return out.kind == rout.kind
        a, b = sg.post_state(out.ret.graph, m), sg.real_state(rout.ret)
        return sorted(t for t, _ in a[0].values()) == sorted(t for t, _ in b[0].values()) and len(a[1]) == len(b[1])

    st = e2.run(ctx, f"{fn}-symbolic-structure", U, vars_, pre, {}, lambda c: f(c, k), posts, split=(sb, j), detail={"case": cid, "k": k}, compare_ret=False, conf_extra=conf_extra)
    ctx.count("symbolic_structure_paths", st["owned"])


def run(ctx):
    import circuitgraph as cg
    from circuitgraph import tx

    ctx.functions(tx.limit_fanin, tx.limit_fanout, tx.insert_registers, tx.acyclic_unroll)
    for cid, spec in ctx.cases(all_cases(ctx) + sym_cases(ctx)):
        if spec[0] == "sym" if isinstance(spec, tuple) else False:
            run_sym(ctx, cid, *spec[1:])
            continue
        A = Net.from_spec(spec)
        if wellformed(A) or not A.is_acyclic():
            ctx.rejected("family member not lint-clean/acyclic")
            continue
        ctx.sample({"case": cid, "circuit": spec})
        allpairs = [(n, n) for n in A.nodes()]
        det = {"case": cid, "circuit": spec if len(spec["nodes"]) < 25 else None}
        wrong = mutate_one_gate(spec)
        for k in (2, 3, 4, 5):
            # ---------------------------------------------------------- limit_fanin
            carg = build(spec)
            ck, e = call(tx.limit_fanin, carg, k)
            ctx.unchanged("limit_fanin", carg, spec)
            if e is not None:
                ctx.side("limit_fanin-raises", False, f"limit_fanin:raises:{type(e).__name__}", f"limit_fanin(k={k}) raised {e!r}", det)
            else:
                B = Net.of(ck)
                ctx.side("limit_fanin-io", B.inputs() == A.inputs() and B.outputs() == A.outputs() and B.bbs == A.bbs, "limit_fanin:io-changed", "limit_fanin changed inputs/outputs/blackboxes", det)
                mx = max([len(B.preds[n]) for n in B.nodes()] + [0])
                ctx.side("limit_fanin-bound", mx <= k, "limit_fanin:fanin-above-k", f"limit_fanin(k={k}) left a gate with {mx} fan-in", det)
                ok = prove_equal(ctx, f"limit_fanin-k{k}", A, B, allpairs, sig=lambda bad, A=A: sig_fanin(A, bad), what=f"limit_fanin(k={k}) changed the function of an original node", detail=det)
                ctx.lint_clean(ck, "limit_fanin")
                if wrong and k == 2 and ok:
                    twin_differs(ctx, "twin-limit_fanin", Net.from_spec(wrong), B, allpairs)
            # --------------------------------------------------------- limit_fanout
            carg = build(spec)
            ck, e = call(tx.limit_fanout, carg, k)
            ctx.unchanged("limit_fanout", carg, spec)
            if e is not None:
                ctx.side("limit_fanout-raises", False, f"limit_fanout:raises:{type(e).__name__}", f"limit_fanout(k={k}) raised {e!r}", det)
            else:
                B = Net.of(ck)
                ctx.side("limit_fanout-io", B.inputs() == A.inputs() and B.outputs() == A.outputs() and B.bbs == A.bbs, "limit_fanout:io-changed", "limit_fanout changed inputs/outputs/blackboxes", det)
                mx = max([len(B.succs[n]) for n in B.nodes()] + [0])
                ctx.side("limit_fanout-bound", mx <= k, "limit_fanout:fanout-above-k", f"limit_fanout(k={k}) left a node with {mx} loads", det)
                prove_equal(ctx, f"limit_fanout-k{k}", A, B, allpairs, sig="limit_fanout:function-changed", what=f"limit_fanout(k={k}) changed the function of an original node", detail=det)
                ctx.lint_clean(ck, "limit_fanout")
        # ------------------------------------------------------- insert_registers
        if not A.bbs and "clk" not in A.types:
            for stages in (1, 2, 3):
                carg = build(spec)
                cr, e = call(tx.insert_registers, carg, stages)
                ctx.unchanged("insert_registers", carg, spec)
                if e is not None:
                    if isinstance(e, ValueError) and "range() arg 3 must not be zero" in str(e):
                        ctx.rejected("insert_registers: no stage boundary")
                    else:
                        ctx.side("insert_registers-raises", False, f"insert_registers:raises:{type(e).__name__}", f"insert_registers(stages={stages}) raised {e!r}", det)
                    continue
                Braw = Net.of(cr)
                nfl = len(Braw.bbs)
                ctx.count("flops_inserted", nfl)
                B = transparent(Braw)
                ok_io = B.outputs() == A.outputs() and B.inputs() - {"clk"} == A.inputs()
                ctx.side("insert_registers-io", ok_io, "insert_registers:io-changed", "insert_registers changed inputs/outputs", det)
                ctx.lint_clean(cr, "insert_registers")
                ok = prove_equal(ctx, f"insert_registers-s{stages}", A, B, allpairs, sig="insert_registers:function-changed",
                            what=f"insert_registers({stages}) with transparent flops changed an original node", detail=det)
                if nfl and wrong and ok:
                    twin_differs(ctx, "twin-insert_registers", Net.from_spec(wrong), B, allpairs)
        # --------------------------------------------------------- acyclic_unroll
        if not A.bbs:
            cu, e = call(tx.acyclic_unroll, build(spec))
            if e is not None:
                ctx.side("acyclic_unroll-raises", False, sig_unroll_raise(A, e), f"acyclic_unroll raised {e!r} on an acyclic circuit", det)
            else:
                B = Net.of(cu)
                ctx.side("acyclic_unroll-io", B.outputs() == A.outputs() and B.inputs() == A.startpoints() and B.is_acyclic(), "acyclic_unroll:io-changed",
                         f"acyclic_unroll on a DAG changed io: inputs {sorted(B.inputs())} outputs {sorted(B.outputs())}", det)
                prove_equal(ctx, "acyclic_unroll-dag", A, B, [(o, o) for o in sorted(A.outputs())], sig="acyclic_unroll:dag-function-changed",
                            what="acyclic_unroll of an acyclic circuit is not equivalent to it", detail=det)
                ctx.lint_clean(cu, "acyclic_unroll")


def sig_fanin(A, bad):
    ts = {A.types[a] for a, _, _, _ in bad}
    # known-finding predicate (fixed): the differing node itself, or the only multi-input gates in its cone above k, are xnor
    if any(A.types[n] == "xnor" and len(A.preds[n]) >= 3 for n in A.nodes()) and not any(
        A.types[n] in ("and", "nand", "or", "nor", "xor") and len(A.preds[n]) >= 3 for n in A.nodes()
    ):
        return "limit_fanin:xnor-regrouping"
    return "limit_fanin:function-changed"


def sig_unroll_raise(A, e):
    if isinstance(e, ValueError) and "already in circuit" in str(e) and (A.outputs() & A.startpoints()):
        return "acyclic_unroll:output-is-startpoint"
    return f"acyclic_unroll:raises:{type(e).__name__}"
