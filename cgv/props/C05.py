"""C05 - limit_fanin / limit_fanout / insert_registers / acyclic_unroll(DAG) preserve function (E1)."""
import z3

from cgv import families as F
from cgv.core import call
from cgv.eq import mutate_one_gate, prove_equal, twin_differs
from cgv.net import Net, build, mkspec, wellformed

META = {
    "level": "translation_validation",
    "engine": "E1 artifact-level SMT: every original node of the transformed circuit is proved equal to the original for all valuations",
    "hashseeds": {"quick": [0, 1], "thorough": [0, 1, 2, 3, 4, 5, 6, 7]},
    "shards": {"quick": 8, "thorough": 2},
    "bounds": {
        "quick": "F-unit with arity 1..8 (all 6 multi-input types), type pairs, fan-out stars with 1..8 loads, F-shape, F-bb, 30 random DAGs (<=12 gates); k=2..5; insert_registers stages 1..3 with every inserted flop made transparent; acyclic_unroll on every acyclic blackbox-free member; ALL input / blackbox-output valuations",
        "thorough": "same + 300 random DAGs + 60 DAGs with 24 gates, 8 hash seeds",
    },
    "outside": ["circuits outside the families", "k > 5", "hash seeds not listed", "num_stages for which round(max_depth/(stages+1)) == 0 (no stage boundary; the call raises)"],
    "assumptions": ["sem.py gate table (Kleene dual-rail when a constant x is present)", "z3 sound"],
}


def star(k, t):
    I = [("a", "input", []), ("b", "input", []), ("n", t, ["a", "b"] if t not in ("buf", "not") else ["a"])]
    loads = [(f"l{i}", ["buf", "not", "and", "or", "xor", "nand", "nor", "xnor"][i % 8], ["n"] + (["b"] if i % 8 >= 2 else []), True) for i in range(k)]
    return (("star", t, k), mkspec(f"star_{t}_{k}", I + loads))


def all_cases(ctx):
    cs = F.f_unit(8) + F.f_shape() + F.f_bb()
    cs += [star(k, t) for k in range(1, 9) for t in ("and", "buf", "xor")]
    cs += [star(7, "input_star")] if False else []
    # an input with many loads
    cs.append((("star", "input", 7), mkspec("star_input", [("a", "input", [])] + [(f"l{i}", "not" if i % 2 else "buf", ["a"], True) for i in range(7)])))
    cs += F.renamed([c for c in F.f_unit(5, pairs=False) if c[0][2] >= 3], "limit")
    cs += F.f_rand(ctx.seed, 30 if ctx.quick else 300)
    if not ctx.quick:
        import random
        cs += [(("rand24", ctx.seed, i), F.rand_dag(random.Random(f"c05-24-{ctx.seed}-{i}"), n_in=4, n_gates=24, name=f"r24_{i}")) for i in range(60)]
    return cs


def transparent(net, flop_type="ff", d="d", q="q"):
    """reference-side rewrite: every flop instance becomes a wire from its d pin to its q pin"""
    s = net.spec()
    for inst, (bbn, ins, outs) in net.bbs.items():
        if bbn != flop_type:
            continue
        drv = net.preds.get(f"{inst}.{d}", [])
        for nd in s["nodes"]:
            if nd[0] == f"{inst}.{q}":
                nd[1] = "buf"
        for u in drv:
            s["edges"].append([u, f"{inst}.{q}"])
    return Net.from_spec(s)


def run(ctx):
    import circuitgraph as cg
    from circuitgraph import tx

    ctx.functions(tx.limit_fanin, tx.limit_fanout, tx.insert_registers, tx.acyclic_unroll)
    for cid, spec in ctx.cases(all_cases(ctx)):
        A = Net.from_spec(spec)
        if wellformed(A) or not A.is_acyclic():
            ctx.rejected("family member not lint-clean/acyclic")
            continue
        ctx.sample({"case": cid, "circuit": spec})
        allpairs = [(n, n) for n in A.nodes()]
        det = {"case": cid, "circuit": spec if len(spec["nodes"]) < 25 else None}
        wrong = mutate_one_gate(spec)
        for k in (2, 3, 4, 5):
            # ---------------------------------------------------------- limit_fanin
            ck, e = call(tx.limit_fanin, build(spec), k)
            if e is not None:
                ctx.side("limit_fanin-raises", False, f"limit_fanin:raises:{type(e).__name__}", f"limit_fanin(k={k}) raised {e!r}", det)
            else:
                B = Net.of(ck)
                ctx.side("limit_fanin-io", B.inputs() == A.inputs() and B.outputs() == A.outputs() and B.bbs == A.bbs, "limit_fanin:io-changed", "limit_fanin changed inputs/outputs/blackboxes", det)
                mx = max([len(B.preds[n]) for n in B.nodes()] + [0])
                ctx.side("limit_fanin-bound", mx <= k, "limit_fanin:fanin-above-k", f"limit_fanin(k={k}) left a gate with {mx} fan-in", det)
                ok = prove_equal(ctx, f"limit_fanin-k{k}", A, B, allpairs, sig=lambda bad, A=A: sig_fanin(A, bad), what=f"limit_fanin(k={k}) changed the function of an original node", detail=det)
                ctx.lint_clean(ck, "limit_fanin")
                if wrong and k == 2 and ok:
                    twin_differs(ctx, "twin-limit_fanin", Net.from_spec(wrong), B, allpairs)
            # --------------------------------------------------------- limit_fanout
            ck, e = call(tx.limit_fanout, build(spec), k)
            if e is not None:
                ctx.side("limit_fanout-raises", False, f"limit_fanout:raises:{type(e).__name__}", f"limit_fanout(k={k}) raised {e!r}", det)
            else:
                B = Net.of(ck)
                ctx.side("limit_fanout-io", B.inputs() == A.inputs() and B.outputs() == A.outputs() and B.bbs == A.bbs, "limit_fanout:io-changed", "limit_fanout changed inputs/outputs/blackboxes", det)
                mx = max([len(B.succs[n]) for n in B.nodes()] + [0])
                ctx.side("limit_fanout-bound", mx <= k, "limit_fanout:fanout-above-k", f"limit_fanout(k={k}) left a node with {mx} loads", det)
                prove_equal(ctx, f"limit_fanout-k{k}", A, B, allpairs, sig="limit_fanout:function-changed", what=f"limit_fanout(k={k}) changed the function of an original node", detail=det)
                ctx.lint_clean(ck, "limit_fanout")
        # ------------------------------------------------------- insert_registers
        if not A.bbs and "clk" not in A.types:
            for stages in (1, 2, 3):
                cr, e = call(tx.insert_registers, build(spec), stages)
                if e is not None:
                    if isinstance(e, ValueError) and "range() arg 3 must not be zero" in str(e):
                        ctx.rejected("insert_registers: no stage boundary")
                    else:
                        ctx.side("insert_registers-raises", False, f"insert_registers:raises:{type(e).__name__}", f"insert_registers(stages={stages}) raised {e!r}", det)
                    continue
                Braw = Net.of(cr)
                nfl = len(Braw.bbs)
                ctx.count("flops_inserted", nfl)
                B = transparent(Braw)
                ok_io = B.outputs() == A.outputs() and B.inputs() - {"clk"} == A.inputs()
                ctx.side("insert_registers-io", ok_io, "insert_registers:io-changed", "insert_registers changed inputs/outputs", det)
                ctx.lint_clean(cr, "insert_registers")
                ok = prove_equal(ctx, f"insert_registers-s{stages}", A, B, allpairs, sig="insert_registers:function-changed",
                            what=f"insert_registers({stages}) with transparent flops changed an original node", detail=det)
                if nfl and wrong and ok:
                    twin_differs(ctx, "twin-insert_registers", Net.from_spec(wrong), B, allpairs)
        # --------------------------------------------------------- acyclic_unroll
        if not A.bbs:
            cu, e = call(tx.acyclic_unroll, build(spec))
            if e is not None:
                ctx.side("acyclic_unroll-raises", False, sig_unroll_raise(A, e), f"acyclic_unroll raised {e!r} on an acyclic circuit", det)
            else:
                B = Net.of(cu)
                ctx.side("acyclic_unroll-io", B.outputs() == A.outputs() and B.inputs() == A.startpoints() and B.is_acyclic(), "acyclic_unroll:io-changed",
                         f"acyclic_unroll on a DAG changed io: inputs {sorted(B.inputs())} outputs {sorted(B.outputs())}", det)
                prove_equal(ctx, "acyclic_unroll-dag", A, B, [(o, o) for o in sorted(A.outputs())], sig="acyclic_unroll:dag-function-changed",
                            what="acyclic_unroll of an acyclic circuit is not equivalent to it", detail=det)
                ctx.lint_clean(cu, "acyclic_unroll")


def sig_fanin(A, bad):
    ts = {A.types[a] for a, _, _, _ in bad}
    # known-finding predicate (fixed): the differing node itself, or the only multi-input gates in its cone above k, are xnor
    if any(A.types[n] == "xnor" and len(A.preds[n]) >= 3 for n in A.nodes()) and not any(
        A.types[n] in ("and", "nand", "or", "nor", "xor") and len(A.preds[n]) >= 3 for n in A.nodes()
    ):
        return "limit_fanin:xnor-regrouping"
    return "limit_fanin:function-changed"


def sig_unroll_raise(A, e):
    if isinstance(e, ValueError) and "already in circuit" in str(e) and (A.outputs() & A.startpoints()):
        return "acyclic_unroll:output-is-startpoint"
    return f"acyclic_unroll:raises:{type(e).__name__}"
