"""C06 - hierarchical composition is functional substitution (E1, relational)."""
import random

import z3

from cgv import families as F
from cgv import sem, sim
from cgv.core import call
from cgv.eq import mutate_one_gate
from cgv.net import Net, build, mkspec, wellformed

META = {
    "level": "translation_validation",
    "engine": "E1 artifact-level SMT (relational): consistent valuations of the composed circuit proved identical to parent relation AND renamed child relation AND connection equalities, for all node valuations",
    "hashseeds": {"quick": [0, 1], "thorough": [0, 1, 2, 3, 4, 5, 6, 7]},
    "shards": {"quick": 8, "thorough": 4},
    "bounds": {
        "quick": "histories of <=4 composition calls (add_subcircuit x2 incl. the same child twice, add_blackbox, fill_blackbox in both orders, strip_blackboxes with and without ignored pins) over 2 parents x children {half_adder, full_adder, mux(2), adder(2), constants child, child with a flop blackbox, 6 random DAGs} x 3 seeded connection maps; every step validated; ALL valuations of all nodes",
        "thorough": "40 random children, 6 connection maps, 8 hash seeds",
    },
    "outside": ["child outputs connected to anything but an undriven buffer of the parent", "connections on child inputs together with strip_io=False (the inputs stay inputs and cannot be driven)", "circuits outside the families"],
    "assumptions": ["sem.py relational semantics (bb_input = buffer, bb_output/undriven = free)", "harness-side reference composition on specs (ref_* functions, ~40 lines)", "z3 sound"],
}

BOXN = 0


def parents():
    I = lambda *ns: [(n, "input", []) for n in ns]
    p1 = mkspec("par1", I("a", "b", "c") + [("s1", "buf", []), ("s2", "buf", []), ("s3", "buf", []), ("s4", "buf", []),
                                           ("g", "nand", ["a", "b"]), ("o1", "and", ["s1", "g"], True), ("o2", "xor", ["s2", "s3", "c"], True), ("o3", "not", ["s4"], True)])
    p2 = mkspec("par2", I("a", "b") + [("k1", "1", []), ("s1", "buf", []), ("s2", "buf", []), ("s3", "buf", []), ("s4", "buf", []), ("h", "or", ["a", "k1"]),
                                      ("o1", "nor", ["s1", "s2"], True), ("o2", "buf", ["s3"], True), ("o3", "xnor", ["s4", "h", "b"], True)])
    # parent nets that merely START like an instance name used below (u1_, u2_, bx_, u9_): some are outputs, one is an input
    for p in (p1, p2):
        p["nodes"] += [["u1_zzout", "buf", True], ["u2_zzo", "not", True], ["bx_zzout", "and", True], ["bx2_zz", "or", False], ["u9_zzout", "buf", True], ["u3_zzin", "input", True]]
        p["edges"] += [["a", "u1_zzout"], ["b", "u2_zzo"], ["a", "bx_zzout"], ["b", "bx_zzout"], ["a", "bx2_zz"], ["u3_zzin", "bx2_zz"], ["bx2_zz", "u9_zzout"]]
    return [("par1", p1), ("par2", p2)]


def children(ctx):
    from circuitgraph import logic

    out = []
    for nm, mk in (("half_adder", logic.half_adder), ("full_adder", logic.full_adder), ("mux2", lambda: logic.mux(2)), ("adder2", lambda: logic.adder(2, carry_out=True))):
        out.append((nm, Net.of(mk()).spec()))
    I = lambda *ns: [(n, "input", []) for n in ns]
    out.append(("consts", mkspec("consts", I("p") + [("z", "0", []), ("w", "1", []), ("q", "and", ["p", "w"], True), ("r", "or", ["z", "p"], True)])))
    # child containing a blackbox (flop) -> nested blackbox carried over under a prefixed name
    ff = ["ff", ["clk", "d"], ["q"]]
    out.append(("with_flop", mkspec("with_flop", I("ck", "x") + [("r0.clk", "bb_input", ["ck"]), ("r0.d", "bb_input", ["x"]), ("r0.q", "bb_output", []), ("qb", "buf", []), ("y", "xor", ["qb", "x"], True)],
                                    edges=[("r0.q", "qb")], bbs={"r0": ff})))
    lat = ["latch", ["en", "d"], ["q", "qn"]]
    out.append(("two_boxes", mkspec("two_boxes", I("ck", "x") + [("r0.clk", "bb_input", ["ck"]), ("r0.d", "bb_input", ["x"]), ("r0.q", "bb_output", []), ("qb", "buf", []),
                                                              ("l1.en", "bb_input", ["ck"]), ("l1.d", "bb_input", ["qb"]), ("l1.q", "bb_output", []), ("l1.qn", "bb_output", []), ("lq", "buf", []),
                                                              ("y", "and", ["qb", "lq", "x"], True)],
                                    edges=[("r0.q", "qb"), ("l1.q", "lq")], bbs={"r0": ff, "l1": lat})))
    # feed-through port: an input that is also marked as an output of the child
    out.append(("feedthrough", mkspec("feedthrough", [("en", "input", [], True), ("d", "input", []), ("q", "and", ["en", "d"], True), ("r", "not", ["en"], True)])))
    for cid, s in F.f_rand(ctx.seed + 77, 6 if ctx.quick else 40, consts=None):
        out.append((f"rand{cid[2]}", s))
    return out


SUFFIX_BOX = ["sff", ["CK", "SCK", "D", "SD"], ["Q", "NQ"]]


def suffix_circuit():
    """two instances of a box whose pin names are suffixes of one another (CK/SCK, D/SD, Q/NQ)"""
    I = lambda *ns: [(n, "input", []) for n in ns]
    nodes = I("clk", "sclk", "a", "b") + [("q0", "buf", []), ("nq0", "buf", []), ("q1", "buf", []), ("g", "xor", ["q0", "nq0", "q1"], True)]
    edges = []
    nodes.append(("q2", "buf", [], True))
    for inst, conn in (("f0", {"CK": "clk", "SCK": "sclk", "D": "a", "SD": "b", "Q": "q0", "NQ": "nq0"}), ("f1", {"CK": "clk", "D": "g", "SD": "a", "Q": "q1"}),
                       ("core.f2", {"CK": "clk", "D": "b", "Q": "q2"})):  # an instance name that itself contains a dot
        for p_ in SUFFIX_BOX[1]:
            nodes.append((f"{inst}.{p_}", "bb_input", [conn[p_]] if p_ in conn else []))
        for p_ in SUFFIX_BOX[2]:
            nodes.append((f"{inst}.{p_}", "bb_output", []))
            if p_ in conn:
                edges.append((f"{inst}.{p_}", conn[p_]))
    return mkspec("suffix", nodes, edges=edges, bbs={"f0": SUFFIX_BOX, "f1": SUFFIX_BOX, "core.f2": SUFFIX_BOX})


def all_cases(ctx):
    cs = [(("strip", "suffix-pins"), ("strip", suffix_circuit(), None))]
    cs += [(("strip",) + cid, ("strip", s_, None)) for cid, s_ in F.f_bb_dotted()]
    cs += [(("strip",) + cid, ("strip", s_, None)) for cid, s_ in F.f_rand_bb(ctx.seed, 10 if ctx.quick else 80)]
    ch = children(ctx)
    nmaps = 3 if ctx.quick else 6
    for pn, p in parents():
        for i, (cn, c) in enumerate(ch):
            for k in range(nmaps):
                cs.append((("hist", pn, cn, k), (p, c, ch[(i + 1 + k) % len(ch)][1])))
    return cs


# ------------------------------------------------------------------ reference composition on specs
def ref_add_sub(P, S, name, conn, strip_io=True):
    sn = Net.from_spec(S)
    if strip_io:
        nodes = [list(n) for n in P["nodes"]] + [[f"{name}_{n}", "buf" if t == "input" else t, False] for n, t, _ in S["nodes"]]
    else:
        # child inputs stay inputs: they cannot be driven, so only outputs may be connected in this mode
        nodes = [list(n) for n in P["nodes"]] + [[f"{name}_{n}", t, o] for n, t, o in S["nodes"]]
        conn = {k: v for k, v in conn.items() if k not in sn.inputs()}
    edges = [list(e) for e in P["edges"]] + [[f"{name}_{u}", f"{name}_{v}"] for u, v in S["edges"]]
    for k, net in conn.items():
        if k in sn.inputs():
            edges.append([net, f"{name}_{k}"])
        else:
            edges.append([f"{name}_{k}", net])
    bbs = dict(P.get("bbs", {}))
    for k, v in S.get("bbs", {}).items():
        bbs[f"{name}_{k}"] = v
    return {"name": P["name"], "nodes": nodes, "edges": edges, "bbs": bbs}


def ref_add_bb(P, bb, name, conn):
    nodes = [list(n) for n in P["nodes"]] + [[f"{name}.{p}", "bb_input", False] for p in bb[1]] + [[f"{name}.{p}", "bb_output", False] for p in bb[2]]
    edges = [list(e) for e in P["edges"]]
    for k, net in conn.items():
        edges.append([net, f"{name}.{k}"] if k in bb[1] else [f"{name}.{k}", net])
    bbs = dict(P.get("bbs", {}))
    bbs[name] = bb
    return {"name": P["name"], "nodes": nodes, "edges": edges, "bbs": bbs}


def ref_fill(P, name, S):
    bb = P["bbs"][name]
    ren = {f"{name}.{p}": f"{name}_{p}" for p in bb[1] + bb[2]}
    r = lambda n: ren.get(n, n)
    types = {}
    for n, t, o in P["nodes"]:
        types[r(n)] = ["buf" if t == "bb_input" and n in ren else t, o]
    for n, t, o in S["nodes"]:
        nn = f"{name}_{n}"
        if t == "input":
            types[nn] = ["buf", False]
        else:
            types[nn] = [t, False]
    edges = [[r(u), r(v)] for u, v in P["edges"]] + [[f"{name}_{u}", f"{name}_{v}"] for u, v in S["edges"]]
    bbs = {k: v for k, v in P["bbs"].items() if k != name}
    for k, v in S.get("bbs", {}).items():
        bbs[f"{name}_{k}"] = v
    return {"name": P["name"], "nodes": [[n, t, o] for n, (t, o) in types.items()], "edges": edges, "bbs": bbs}


def ref_strip_bb(P, ignore):
    ren, drop = {}, set()
    nodes = []
    for n, t, o in P["nodes"]:
        if t in ("bb_input", "bb_output"):
            if n.split(".")[-1] in ignore:
                drop.add(n)
                continue
            ren[n] = n.replace(".", "_")
            nodes.append([ren[n], "buf" if t == "bb_input" else "input", True if t == "bb_input" else o])
        else:
            nodes.append([n, t, o])
    edges = [[ren.get(u, u), ren.get(v, v)] for u, v in P["edges"] if u not in drop and v not in drop]
    return {"name": P["name"], "nodes": nodes, "edges": edges, "bbs": {}}


# ------------------------------------------------------------------------------ obligations
def same_relation(ctx, tag, Q, E, det, sig):
    """rel(Q,V) <=> rel(E,V) for ALL V; plus node set / io / registry equality (concrete)"""
    qn, en = set(Q.types), set(E.types)
    ok = ctx.side(tag + ":nodes", qn == en, sig + ":node-set", f"{tag}: node set differs: missing {sorted(en - qn)[:4]} unexpected {sorted(qn - en)[:4]}", det)
    ctx.side(tag + ":io", Q.inputs() == E.inputs() and Q.outputs() == E.outputs(), sig + ":io", f"{tag}: inputs/outputs differ: {sorted(Q.inputs() ^ E.inputs())} / {sorted(Q.outputs() ^ E.outputs())}", det)
    ctx.side(tag + ":registry", Q.bbs == E.bbs, sig + ":registry", f"{tag}: blackbox registry {sorted(Q.bbs)} != expected {sorted(E.bbs)}", det)
    if not ok:
        return False
    V = sem.boolvars("n!", sorted(qn))
    try:
        RQ, RE = sem.rel(Q, V), sem.rel(E, V)
    except ValueError as e:
        ctx.side(tag + ":encodable", False, sig + ":ill-formed", f"{tag}: result not encodable: {e}", det)
        return False

    def replay(m, Q=Q, E=E, V=V):
        val = sim.model_bits(m, V)
        a, b = sim.consistent(Q, val), sim.consistent(E, val)
        d = dict(det)
        d.update({"valuation": val, "consistent_in_result": a, "consistent_in_reference": b})
        return {"reproduced": a != b, "sig": sig + ":relation", "what": f"{tag}: a valuation is consistent in {'the result' if a else 'the reference composition'} only", "detail": d}

    r = ctx.prove(tag, [z3.Xor(RQ, RE)], replay)
    if r:
        # twin: a wrong reference (one gate's polarity flipped) must be refuted whenever the relation is satisfiable
        s = z3.Solver()
        s.add(RE)
        wrong = mutate_one_gate(E.spec(), len(qn))
        if wrong is not None and s.check() == z3.sat:
            ctx.twin("twin-" + tag, [z3.Xor(RQ, sem.rel(Net.from_spec(wrong), V))])
        else:
            ctx.count("relation_unsat_or_no_gate")
    return r


def conn_map(rng, P, S, taken):
    """random connection map: child inputs <- arbitrary parent nets, child outputs -> free sockets"""
    pn = Net.from_spec(P)
    sn = Net.from_spec(S)
    nets = [n for n in pn.nodes() if pn.types[n] not in ("bb_input", "bb_output")]
    socks = [n for n in pn.nodes() if pn.types[n] == "buf" and not pn.preds[n] and n not in taken]
    conn = {}
    for i in sorted(sn.inputs()):
        if rng.random() < 0.8:
            conn[i] = rng.choice(nets)
    for o in sorted(sn.outputs() - sn.inputs()):
        if socks and rng.random() < 0.7:
            s = socks.pop(rng.randrange(len(socks)))
            conn[o] = s
            taken.add(s)
    return conn


def run(ctx):
    import circuitgraph as cg
    from circuitgraph import tx

    ctx.functions(cg.Circuit.add_subcircuit, cg.Circuit.add_blackbox, cg.Circuit.fill_blackbox, tx.strip_blackboxes)
    for cid, (pspec, c1, c2) in ctx.cases(all_cases(ctx)):
        if pspec == "strip":
            spec = c1
            ctx.sample({"case": cid, "circuit": spec})
            for ign in (None, "CK", ["CK"], ["Q"], ["D", "Q"], ["SCK", "NQ"], ["CK", "SCK", "Q"], ["D"], ["SD", "NQ", "CK"], ["en"], ["d"], ["q", "en"], "clk", ["p", "z"], ["y"]):
                r, e = call(tx.strip_blackboxes, build(spec), ign)
                det = {"case": cid, "circuit": spec, "ignore_pins": ign}
                if e is not None:
                    ctx.side("strip_blackboxes-raises", False, f"strip_blackboxes:raises:{type(e).__name__}", f"strip_blackboxes raised {e!r}", det)
                else:
                    ig = [] if ign is None else ([ign] if isinstance(ign, str) else ign)
                    same_relation(ctx, "strip_blackboxes", Net.of(r), Net.from_spec(ref_strip_bb(spec, ig)), det, "strip_blackboxes")
            continue
        rng = random.Random(f"c06-{ctx.seed}-{cid}")
        c = build(pspec)
        cur = pspec
        taken = set()
        hist = []
        ctx.sample({"case": cid, "parent": pspec, "child": c1})

        def step(tag, f, ref, sig):
            nonlocal cur
            _, e = call(f)
            det = {"case": cid, "history": list(hist), "before": cur if len(cur["nodes"]) < 40 else None}
            if e is not None:
                ctx.side(tag + "-raises", False, f"{sig}:raises:{type(e).__name__}", f"{tag} raised {e!r}", det)
                return False
            E = Net.from_spec(ref)
            Q = Net.of(c)
            ok = same_relation(ctx, tag, Q, E, det, sig)
            cur = Q.spec()
            return ok

        # 1. add_subcircuit(child1, u1)
        conn = conn_map(rng, cur, c1, taken)
        hist.append(["add_subcircuit", c1["name"], "u1", conn])
        conn_obj = dict(conn)
        first_ref = ref_add_sub(cur, c1, "u1", conn)
        if not step("add_subcircuit", lambda: c.add_subcircuit(build(c1), "u1", conn_obj), first_ref, "add_subcircuit"):
            continue
        # the caller keeps his connection map in a variable and instantiates the child into a second, identically built parent with it
        c_twin = build(pspec)
        _, e_twin = call(lambda: c_twin.add_subcircuit(build(c1), "u1", conn_obj))
        det_twin = {"case": cid, "history": [hist[0], "the same connections dict object used for the same call on a second, identically built parent"], "before": pspec}
        if e_twin is not None:
            ctx.side("add_subcircuit-second-parent-raises", False, f"add_subcircuit:raises:{type(e_twin).__name__}", f"add_subcircuit with a connection map used before raised {e_twin!r}", det_twin)
        else:
            same_relation(ctx, "add_subcircuit-second-parent", Net.of(c_twin), Net.from_spec(first_ref), det_twin, "add_subcircuit")
        # 2. same child again under another name, fed from the first instance where possible
        conn = conn_map(rng, cur, c1, taken)
        hist.append(["add_subcircuit", c1["name"], "u2", conn])
        if not step("add_subcircuit-again", lambda: c.add_subcircuit(build(c1), "u2", dict(conn)), ref_add_sub(cur, c1, "u2", conn), "add_subcircuit"):
            continue
        # 3. add_blackbox with the io of child2, then fill it (fill after add_blackbox)
        s2 = Net.from_spec(c2)
        ins, outs = sorted(s2.inputs()), sorted(s2.outputs() - s2.inputs())
        if ins and outs and not (s2.inputs() & s2.outputs()):
            bb = ["box_" + c2["name"], ins, outs]
            conn = conn_map(rng, cur, c2, taken)
            hist.append(["add_blackbox", bb, "bx", conn])
            if not step("add_blackbox", lambda: c.add_blackbox(cg.BlackBox(bb[0], bb[1], bb[2]), "bx", dict(conn)), ref_add_bb(cur, bb, "bx", conn), "add_blackbox"):
                continue
            # a second instance whose name has the first one's name as a prefix stays open while `bx` is filled
            conn2 = conn_map(rng, cur, c2, taken)
            hist.append(["add_blackbox", bb, "bx2", conn2])
            if not step("add_blackbox-2", lambda: c.add_blackbox(cg.BlackBox(bb[0], bb[1], bb[2]), "bx2", dict(conn2)), ref_add_bb(cur, bb, "bx2", conn2), "add_blackbox"):
                continue
            order = rng.random() < 0.5
            if order:
                # another subcircuit between add_blackbox and fill (order of calls varies)
                conn3 = conn_map(rng, cur, c1, taken)
                hist.append(["add_subcircuit", c1["name"], "u3", conn3])
                if not step("add_subcircuit-3", lambda: c.add_subcircuit(build(c1), "u3", dict(conn3)), ref_add_sub(cur, c1, "u3", conn3), "add_subcircuit"):
                    continue
            # strip_blackboxes on the circuit while the box is still there (pure function of c)
            for ign in ([], [ins[0]], [outs[0]]):
                before_strip = Net.of(c).spec()
                r, e = call(tx.strip_blackboxes, c, list(ign))
                ctx.unchanged("strip_blackboxes", c, before_strip)
                det = {"case": cid, "history": list(hist), "ignore_pins": ign}
                if e is not None:
                    ctx.side("strip_blackboxes-raises", False, f"strip_blackboxes:raises:{type(e).__name__}", f"strip_blackboxes raised {e!r}", det)
                else:
                    same_relation(ctx, "strip_blackboxes", Net.of(r), Net.from_spec(ref_strip_bb(cur, ign)), det, "strip_blackboxes")
            hist.append(["fill_blackbox", "bx", c2["name"]])
            if not step("fill_blackbox", lambda: c.fill_blackbox("bx", build(c2)), ref_fill(cur, "bx", c2), "fill_blackbox"):
                continue
            hist.append(["fill_blackbox", "bx2", c2["name"]])
            if not step("fill_blackbox-2", lambda: c.fill_blackbox("bx2", build(c2)), ref_fill(cur, "bx2", c2), "fill_blackbox"):
                continue
        # strip_io=False: the child keeps its inputs/outputs; sub-blackboxes are still carried over under prefixed names
        if not (Net.from_spec(c1).inputs() & Net.from_spec(c1).outputs()):
            conn9 = {k_: v_ for k_, v_ in conn_map(rng, cur, c1, taken).items() if k_ not in Net.from_spec(c1).inputs()}
            hist.append(["add_subcircuit", c1["name"], "u9", conn9, "strip_io=False"])
            if not step("add_subcircuit-keep-io", lambda: c.add_subcircuit(build(c1), "u9", dict(conn9) or None, strip_io=False), ref_add_sub(cur, c1, "u9", conn9, strip_io=False), "add_subcircuit"):
                continue
        # fully connected composition results are lint-clean except for sockets we left open: check with undriven=False
        ctx.lint_clean(c, "composition", undriven=False)
