"""C03 - Verilog write -> read round trip preserves the circuit (E1)."""
import os
import tempfile

from cgv import families as F
from cgv.core import call
from cgv.eq import mutate_one_gate, prove_equal, twin_differs
from cgv.net import Net, build, mkspec, wellformed

META = {
    "level": "translation_validation",
    "engine": "E1 artifact-level SMT: written-then-read circuit proved equal to the original at every output and blackbox input pin for all valuations of inputs, blackbox outputs (Kleene dual-rail when a constant x is present)",
    "hashseeds": {"quick": [0, 1], "thorough": [0, 1, 2, 3, 4, 5, 6, 7]},
    "shards": {"quick": 8, "thorough": 4},
    "bounds": {
        "quick": "F-unit K<=5 + type pairs, F-shape, F-bb (connected, unconnected and constant-driven pins, back-to-back boxes), constants 0/1/x, escaped identifiers, outputs that are inputs/constants, 30 random DAGs; behavioral in {False, True}; string round trip and to_file/from_file round trip",
        "thorough": "same + every circuit with 2 inputs and <=2 gates (1078) + 300 random DAGs + bundled c17/c432/s27, 8 hash seeds",
    },
    "outside": ["node names that are not legal Verilog identifiers or collide with the reader's reserved names tie_0/tie_1/tie_x or its synthetic expression names", "circuits outside the families", "text layout (fixed by the writer)"],
    "assumptions": ["sem.py gate / Kleene tables", "z3 sound"],
}


def x_cases():
    I = lambda *ns: [(n, "input", []) for n in ns]
    return [
        (("xconst", "simple"), mkspec("xsimple", I("a", "b") + [("kx", "x", []), ("p", "and", ["a", "kx"], True), ("q", "or", ["b", "kx"], True), ("r", "xor", ["a", "kx"], True)])),
        (("xconst", "two"), mkspec("xtwo", I("a") + [("kx", "x", []), ("ky", "x", []), ("k1", "1", []), ("p", "nand", ["kx", "ky", "a"], True), ("q", "nor", ["ky", "k1"], True), ("o", "buf", ["kx"], True)])),
    ]


def synth_name_cases():
    """real nodes named like the gates the reader synthesises for a nested expression AND like the numbered variant it would pick next
    (and_a_b, and_a_b_0, ...), next to a gate whose assign form needs such an inner gate"""
    out = []
    I = [("a", "input", []), ("b", "input", []), ("c", "input", [])]
    for t, inner in (("nand", "and"), ("nor", "or"), ("xnor", "xor")):
        nodes = I + [(f"{inner}_a_b", "or", ["a", "c"], True), (f"{inner}_a_b_0", "and", ["b", "c"], True), (f"{inner}_a_b_1", "xor", ["a", "b", "c"], True),
                     ("y", t, ["a", "b"], True), ("z", t, ["a", "b", "c"], True), (f"not_{inner}_a_b", "buf", ["y"], True)]
        out.append((("synthnames", t), mkspec(f"synth_{t}", nodes)))
    return out


def all_cases(ctx):
    cs = synth_name_cases() + F.reordered(synth_name_cases()) + F.f_unit(5) + F.f_shape() + F.f_bb() + x_cases() + F.reordered(F.f_shape() + F.f_bb())
    cs += F.renamed([c for c in F.f_unit(3, pairs=False)] + F.f_shape()[:4], "escaped")
    cs += F.f_wide((17,) if ctx.quick else (17, 33), types=("nand", "xor", "xnor"))
    cs += F.f_rand(ctx.seed, 30 if ctx.quick else 300) + F.f_rand_bb(ctx.seed, 12 if ctx.quick else 100)
    if not ctx.quick:
        cs += [(("lib", n), "lib:" + n) for n in ("c17", "c432", "s27")]
        cs += F.f_small(2)
    return cs


def bbs_of(cg, net):
    seen = {}
    for inst, (name, ins, outs) in net.bbs.items():
        seen[name] = cg.BlackBox(name, ins, outs)
    return list(seen.values())


def run(ctx):
    import circuitgraph as cg
    from circuitgraph import io as cgio

    ctx.functions(cgio.circuit_to_verilog, cgio.verilog_to_circuit, cgio.to_file, cgio.from_file)
    from circuitgraph.parsing import verilog as pv
    ctx.functions(pv._VerilogCircuitGraphTransformer.module, pv._VerilogCircuitGraphTransformer.module_instantiation, pv._VerilogCircuitGraphTransformer.assignment)
    workdir = tempfile.TemporaryDirectory(prefix="cgv_v_")
    for cid, spec in ctx.cases(all_cases(ctx)):
        if isinstance(spec, str):
            spec = Net.of(cg.from_lib(spec.split(":")[1])).spec()
        A = Net.from_spec(spec)
        bad = [b for b in wellformed(A, undriven=False)]
        if bad or not A.is_acyclic() or any(n in ("tie_0", "tie_1", "tie_x") for n in A.types):
            ctx.rejected("family member outside the domain")
            continue
        ctx.sample({"case": cid, "circuit": spec if len(spec["nodes"]) < 25 else f"{len(spec['nodes'])} nodes"})
        has_const = any(t in ("0", "1", "x") for t in A.types.values())
        pins = sorted(n for n, t in A.types.items() if t == "bb_input")
        obs = sorted(A.outputs()) + pins
        for behavioral in (False, True):
            for via_file in (False, True):
                det = {"case": cid, "circuit": spec if len(spec["nodes"]) < 25 else None, "behavioral": behavioral, "via_file": via_file}
                c = build(spec)
                if via_file:
                    # one path per worker, rewritten for every circuit (a user's build directory): what is read must be what was just written
                    # (behavioral: file named after the module and the module name left to from_file's default)
                    path = os.path.join(workdir.name, f"{A.name}.v" if behavioral else "netlist.v")
                    _, e = call(cgio.to_file, c, path, "verilog", behavioral)
                    text = open(path).read() if e is None else None
                    c2, e2 = (None, e) if e is not None else call(cgio.from_file, path, None if behavioral else A.name, None, bbs_of(cg, A))
                else:
                    _first, e = call(cgio.circuit_to_verilog, c, behavioral)
                    # the same circuit object written a second time must give a text with the same meaning
                    text, e = (None, e) if e is not None else call(cgio.circuit_to_verilog, c, behavioral)
                    c2, e2 = (None, e) if e is not None else call(cgio.verilog_to_circuit, text, A.name, False, bbs_of(cg, A))
                ctx.unchanged("circuit_to_verilog", c, spec)
                det["text"] = text[:1500] if text else None
                if e is not None:
                    ctx.side("writer-raises", False, f"verilog-writer:raises:{type(e).__name__}", f"circuit_to_verilog raised {e!r}", det)
                    continue
                if e2 is not None:
                    ctx.side("reader-raises", False, sig_read(A, text, e2), f"reading back the written text raised {type(e2).__name__}: {str(e2)[:200]}", det)
                    continue
                B = Net.of(c2)
                ctx.side("rt-name", c2.name == A.name, "roundtrip:name", f"name {c2.name!r} != {A.name!r}", det)
                ctx.side("rt-io", B.inputs() == A.inputs() and B.outputs() == A.outputs(), "roundtrip:io", f"inputs/outputs differ: {sorted(B.inputs() ^ A.inputs())} / {sorted(B.outputs() ^ A.outputs())}", det)
                ctx.side("rt-registry", B.bbs == A.bbs, "roundtrip:registry", f"blackbox instances differ: {B.bbs} vs {A.bbs}", det)
                pinbad = []
                for p in [n for n, t in A.types.items() if t in ("bb_input", "bb_output")]:
                    if B.types.get(p) != A.types[p]:
                        pinbad.append((p, "missing"))
                    elif A.types[p] == "bb_input" and B.preds[p] != A.preds[p]:
                        pinbad.append((p, B.preds[p], A.preds[p]))
                    elif A.types[p] == "bb_output" and B.succs[p] != A.succs[p]:
                        pinbad.append((p, B.succs[p], A.succs[p]))
                ctx.side("rt-pins", not pinbad, "roundtrip:pin-nets", f"blackbox pins attached to different nets: {pinbad[:3]}", det)
                if not has_const and not behavioral:
                    ctx.side("rt-identical", B.spec()["nodes"] == A.spec()["nodes"] and B.spec()["edges"] == A.spec()["edges"], "roundtrip:graph-not-identical",
                             "gate-primitive round trip of a constant-free circuit is not an identical graph", det)
                if not B.is_acyclic() or any(o not in B.types for o in obs):
                    ctx.side("rt-shape", False, "roundtrip:shape", "read-back circuit is cyclic or lacks an observed node", det)
                    continue
                share = {f: f for f in B.free()}
                ok = prove_equal(ctx, f"roundtrip-{'assign' if behavioral else 'gates'}", A, B, [(o, o) for o in obs], share_b=share, sig="roundtrip:function-changed",
                                 what=f"write->read (behavioral={behavioral}) changed the function", detail=det)
                ctx.lint_clean(c2, "roundtrip", undriven=not any(t == "bb_input" and not A.preds[n] for n, t in A.types.items()))
                if ok and not via_file:
                    w = mutate_one_gate(spec)
                    if w and obs:
                        Aw = Net.from_spec(w)
                        allp = [(n, n) for n in A.nodes() if n in B.types]
                        twin_differs(ctx, "twin-roundtrip", Aw, B, allp, share_b=share)


def sig_read(A, text, e):
    if ".(" not in (text or "") and "()" in (text or "") and type(e).__name__ in ("UnexpectedToken", "UnexpectedCharacters", "UnexpectedInput"):
        return "verilog-reader:unconnected-pin-syntax"
    return f"verilog-reader:raises:{type(e).__name__}"
