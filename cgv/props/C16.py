"""C16 - remove_unloaded deletes exactly the dead logic (E2: real method on a symbolic circuit)."""
import z3

from cgv import e2, specs
from cgv import symgraph as sg
from cgv.symgraph import TS

META = {
    "level": "model_checking",
    "engine": "E2 lazy-fork symbolic execution of the real Circuit.remove_unloaded over a symbolic acyclic circuit (presence, type, output flag and every forward edge are z3 variables); per path z3 proves removed set = {dead and deletable}, survivors untouched, returned list = removed set, second call returns nothing",
    "hashseeds": {"quick": [0], "thorough": [0]},
    "shards": {"quick": 16, "thorough": 16},
    "exhaustive_within_bound": True,
    "bounds": {
        "quick": "every lint-legal acyclic circuit over N=4 names (input, and, sink, x: names that are also type strings or plausible temporary names), created in topological and in reverse topological order: all presence/type/output/edge combinations; inputs=False with all 14 types (incl. blackbox pins), inputs=True with blackbox-free types; repeated application (second call)",
        "thorough": "N=5 in topological creation order; N=4 in reverse topological and in an interleaved creation order",
    },
    "outside": ["more than N nodes", "cyclic circuits", "creation orders other than: topological, reverse topological (thorough: one interleaved order on 4 names)"],
    "assumptions": ["SymDiGraph stand-in for networkx.DiGraph (validated by a conformance replay against real networkx on every path)", "specs.py definitions of liveness/legality", "z3 sound"],
    "rule": "state = explored path (class of pre-states that drive the real code the same way); transition = solver-decided branch",
}

SPLIT_BITS = {"quick": 10, "thorough": 12}
# node names that are also type strings / names an implementation might pick for a temporary node (a name is never a type)
NAMES = ["input", "and", "sink", "x", "buf"]


def all_cases(ctx):
    N = 4 if ctx.quick else 5
    sb = SPLIT_BITS[ctx.tier]
    # bit-reversed order: the low-order bits (first decisions) decide the size of a sub-tree; spread them over the shards
    ks = [int(format(k, f"0{sb}b")[::-1], 2) for k in range(1 << sb)]
    cs = [(("remove_unloaded", N, inputs, k), (N, inputs, sb, k)) for k in ks for inputs in (False, True)]
    # the same universe with the edges running AGAINST the iteration (= creation) order of the graph: drivers created after their
    # loads, as in parsed or incrementally wired netlists (thorough: also an interleaved order on N=4)
    sb4 = SPLIT_BITS["quick"]
    ks4 = [int(format(k, f"0{sb4}b")[::-1], 2) for k in range(1 << sb4)]
    cs += [(("remove_unloaded", 4, inputs, k, "rev"), ((4, "rev"), inputs, sb4, k)) for k in ks4 for inputs in (False, True)]
    if not ctx.quick:
        cs += [(("remove_unloaded", 4, inputs, k, "mixed"), ((4, "mixed"), inputs, sb4, k)) for k in ks4 for inputs in (False, True)]
    # a circuit with a registered blackbox instance `bb` AND an ordinary node that is also called `bb` (legal: only pin names are checked)
    cs += [(("remove_unloaded", "bbname", False, k), ("bbname", False, 4, k)) for k in range(16)]
    return cs


def run(ctx):
    import circuitgraph as cg

    ctx.functions(cg.Circuit.remove_unloaded, cg.Circuit.remove, cg.Circuit.fanin, cg.Circuit.fanout, cg.Circuit.is_output, cg.Circuit.type)
    for cid, (N, inputs, sb, k) in ctx.cases(all_cases(ctx)):
        registry = {}
        D = None  # direction of the edges; default: the iteration order U
        if N == "bbname":
            U = ["bb.o", "a", "bb", "n", "bb.i"]
            registry = {"bb": (["i"], ["o"])}
        elif isinstance(N, tuple):
            U = NAMES[:N[0]]
            D = list(reversed(U)) if N[1] == "rev" else [U[i] for i in ([1, 3, 0, 2, 4][:len(U)] if len(U) > 3 else [1, 0, 2][:len(U)])]
        else:
            U = NAMES[:N]
        vars_ = sg.make_vars(U, self_loops=False)
        P, T, O, E = vars_
        OM = {n: z3.Bool(f"OM!{n}") for n in U}  # node without an `output` attribute (is_output() treats it as not an output)
        types = [t for t in sg.TYPES if inputs is False or t not in ("bb_input", "bb_output")]
        D = D or U
        pre = sg.base_pre(vars_, types=types, dag_order=D)
        A = e2.acc_pre(vars_, OM)
        pre.append(specs.legal_wiring(U, A.present, A.typ, A.edge))
        if registry:
            pre.append(specs.pins_ok(registry, A.present, A.typ))
            for n in ("a", "bb", "n"):
                pre.append(z3.Not(specs.is_in(T[n], [TS["bb_input"], TS["bb_output"]])))

        def op(c, inputs=inputs):
            r1 = c.remove_unloaded(inputs=inputs)
            r2 = c.remove_unloaded(inputs=inputs)
            return {"first": list(r1), "second": list(r2)}

        def posts(pre_, post, out, names, c, inputs=inputs, U=U, registry=registry, D=D):
            res = []
            if out.kind != "ok":
                return [("returns", z3.BoolVal(False), "remove_unloaded:raises", f"remove_unloaded raised {out.exc}: {out.ret}")]
            r1, r2 = out.ret["first"], out.ret["second"]
            live = {}
            for v in reversed(D):
                live[v] = z3.And(pre_.present(v), z3.Or([pre_.out(v), pre_.typ(v) == TS["bb_input"]] + [z3.And(pre_.edge(v, w), live[w]) for w in D if D.index(w) > D.index(v)]))
            keep_types = [TS["bb_input"], TS["bb_output"]] + ([] if inputs else [TS["input"]])
            removed = {v: z3.And(pre_.present(v), z3.Not(post.present(v))) for v in U}
            for v in U:
                deletable = z3.Not(specs.is_in(pre_.typ(v), keep_types))
                should = z3.And(pre_.present(v), z3.Not(live[v]), deletable)
                res.append((f"removed-iff-dead:{v}", removed[v] == should, sig_removed(v, inputs), f"node {v}: removed != (dead and deletable) [inputs={inputs}]"))
                same_fi = z3.And([z3.And(post.present(u), post.edge(u, v)) == z3.And(pre_.present(u), pre_.edge(u, v)) for u in U])
                res.append((f"survivor-untouched:{v}", z3.Implies(post.present(v), z3.And(pre_.present(v), post.typ(v) == pre_.typ(v), post.out(v) == pre_.out(v), same_fi)),
                            "remove_unloaded:survivor-changed", f"surviving node {v} changed type, output mark or fan-in"))
            extra = [n for n in names if n not in U]
            res.append(("no-new-nodes", z3.And([z3.Not(post.present(n)) for n in extra]) if extra else z3.BoolVal(True), "remove_unloaded:new-node", "a node was created"))
            res.append(("returned-list", z3.And([z3.BoolVal(v in r1) == removed[v] for v in U] + [z3.BoolVal(len(set(r1)) == len(r1) and set(r1) <= set(U))]), "remove_unloaded:returned-list", f"returned list {r1} is not the set of deleted nodes"))
            res.append(("idempotent", z3.BoolVal(r2 == []), "remove_unloaded:not-idempotent", f"a second call removed {r2}"))
            res.append(("registry-unchanged", z3.BoolVal(sorted(c.blackboxes) == sorted(registry)), "remove_unloaded:registry-changed", f"the blackbox registry changed to {sorted(c.blackboxes)}"))
            return res

        st = e2.run(ctx, f"remove_unloaded(inputs={inputs})", U, vars_, pre, registry, op, posts, split=(sb, k), detail={"case": cid}, OM=OM)
        ctx.sample({"case": cid, "universe": U, "paths": st["paths"], "pre": "legal acyclic circuit, all presence/type/output/edge bits symbolic"})


def sig_removed(v, inputs):
    return "remove_unloaded:wrong-set" if inputs else "remove_unloaded:wrong-set-inputs-false"
