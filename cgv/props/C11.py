"""C11 - sensitivity analyses agree with their definitions (E1 + stand-in SAT solver)."""
import random

import z3

from cgv import families as F
from cgv import sim
from cgv.core import call
from cgv.net import Net, build, mkspec, wellformed
from cgv.sem import Sem, bv_of

META = {
    "level": "translation_validation",
    "engine": "E1 artifact-level SMT: `sat`, dif_out_s and sen_out bits of the two transform circuits proved equal to their definitions for all valuations; sensitivity = max certified by SAT at r / UNSAT at r+1 on the reference; influence counts certified by solver enumeration with a final UNSAT",
    "hashseeds": {"quick": [0, 1], "thorough": [0, 1, 2, 3, 4, 5, 6, 7]},
    "shards": {"quick": 8, "thorough": 4},
    "bounds": {
        "quick": "F-unit K in {1,2,3,4,5,8} (cones with exactly 1,2,4,8 startpoints), F-shape, functionally constant nodes, 15 random DAGs (<=4 inputs, <=10 gates); node n: every node (<=8 per circuit sampled when larger); endpoint choices: None, each single endpoint in the fan-out of n, n itself, one random subset",
        "thorough": "same + 100 random DAGs (<=6 inputs), all nodes",
    },
    "outside": ["supergates=True and approx=True modes of influence (approx path is covered by C08's DIMACS certificate)", "cones with more than 8 startpoints", "blackboxes (rejected)"],
    "assumptions": ["sem.py gate table", "pysat stand-in", "z3 sound"],
}


def const_cases():
    I = lambda *ns: [(n, "input", []) for n in ns]
    return [
        (("const", "a_and_na"), mkspec("a_and_na", I("a", "b") + [("na", "not", ["a"]), ("z", "and", ["a", "na"]), ("o", "or", ["z", "b"], True), ("t", "xnor", ["a", "na"], True)])),
        (("const", "taut"), mkspec("taut", I("a", "b", "c") + [("x1", "xor", ["a", "b"]), ("x2", "xor", ["b", "a"]), ("z", "xor", ["x1", "x2"], True), ("o", "and", ["z", "c"], True), ("p", "or", ["c", "z"], True)])),
    ]


def all_cases(ctx):
    cs = [c for c in F.f_unit(8, pairs=False) if c[0][2] in (1, 2, 3, 4, 5, 8)] + [c for c in F.f_unit(3) if c[0][0] == "pair"][::3]
    cs += F.f_shape() + const_cases()
    cs += F.renamed([c for c in F.f_unit(3, pairs=False) if c[0][2] == 2], "miter")
    # inputs / gates that merely start like the miter's own names (c0_k, c1_k, dif_en, sat_in, ...) without clashing with any
    cs += F.renamed([c for c in F.f_unit(3, pairs=False) if c[0][2] == 3][:4] + F.f_shape()[:3], "miter3")
    cs += F.renamed([c for c in F.f_unit(3, pairs=False) if c[0][2] == 2][:3] + F.f_shape()[3:5], "miter2")
    cs += F.f_rand(ctx.seed, 15 if ctx.quick else 100, n_in=None, n_gates=None, max_arity=3)
    return cs


def count_models(cond, vars_):
    """solver enumeration of the projections of cond onto vars_ with a final UNSAT"""
    s = z3.Solver()
    s.add(cond)
    n = 0
    while True:
        r = s.check()
        if r == z3.unsat:
            return n
        if r != z3.sat:
            raise RuntimeError("unknown")
        m = s.model()
        n += 1
        if not vars_:
            return n
        s.add(z3.Or([v != m.eval(v, model_completion=True) for v in vars_]))


def run(ctx):
    from circuitgraph import props, tx

    ctx.functions(tx.sensitization_transform, tx.sensitivity_transform, props.sensitivity, props.influence, props.avg_sensitivity, props.sensitize)
    # history: somebody else in the process has used (and edited) the generated blocks sensitivity_transform is built from;
    # the transform must not be built from those objects
    from circuitgraph import logic
    for w in range(1, 10):
        for gen, args in (("popcount", (w,)), ("adder", (w,)), ("half_adder", ()), ("full_adder", ())):
            junk, _e = call(getattr(logic, gen), *args)
            if junk is not None:
                junk.graph.clear()
                junk.blackboxes.clear()
    for cid, spec in ctx.cases(all_cases(ctx)):
        A = Net.from_spec(spec)
        if wellformed(A) or not A.is_acyclic() or A.bbs or A.has_x():
            ctx.rejected("family member outside the domain")
            continue
        rng = random.Random(f"c11-{ctx.seed}-{cid}")
        ctx.sample({"case": cid, "circuit": spec})
        g = A.digraph()
        import networkx as nx

        nodes = [n for n in A.nodes() if (({n} | nx.ancestors(g, n)) & A.inputs())]
        if ctx.quick and len(nodes) > 8:
            nodes = sorted(rng.sample(nodes, 8))
        S = Sem()
        env = {i: S.var("v!" + i) for i in A.inputs()}
        base = S.fn(A, env)
        outs = sorted(A.outputs())
        check_lists(ctx, props, spec, A, nodes, S, env, base, {"case": cid, "circuit": spec if len(spec["nodes"]) < 25 else None})
        for n in nodes:
            det = {"case": cid, "circuit": spec if len(spec["nodes"]) < 25 else None, "node": n}
            flipped = S.fn(A, env, override={n: lambda v, val: z3.Not(v)})
            sp_n = sorted(({n} | nx.ancestors(g, n)) & A.inputs())
            # ---------------------------------------------------- sensitization_transform
            down = ({n} | nx.descendants(g, n))
            eps = [None] + [[o] for o in outs if o in down and o != n]
            if n in outs:
                eps.append([n])
            cand = [o for o in outs if o in down]
            if len(cand) > 2:
                eps.append(sorted(rng.sample(cand, 2)))
            for ep in eps:
                d2 = dict(det, endpoints=ep)
                carg = build(spec)
                ep_arg = (ep[0] if (ep and len(ep) == 1 and len(n) % 2 == 0) else (list(ep) if ep else None))  # str and list forms
                m, e = call(tx.sensitization_transform, carg, n, ep_arg)
                ctx.unchanged("sensitization_transform", carg, spec)
                if e is not None and name_clash(A, e):
                    ctx.rejected("documented rejection: name overlap with the miter's own node names")
                    continue
                if e is not None:
                    ctx.side("sensitization-raises", False, sig_sens_raise(n, ep, e), f"sensitization_transform(n={n!r}, endpoints={ep}) raised {e!r}", d2)
                    continue
                M = Net.of(m)
                if not ctx.side("sensitization-shape", "sat" in M.types and M.is_acyclic() and M.inputs() <= A.inputs() and set(M.free()) == M.inputs(), "sensitization:shape", "result lacks `sat`, is cyclic or has unexpected free signals", d2):
                    continue
                fm = S.fn(M, {i: env[i] for i in M.inputs()})
                D = z3.Or([z3.Xor(base[o], flipped[o]) for o in (ep or outs)])

                def replay(mod, M=M, A=A, n=n, ep=ep, d2=d2, S=S, outs=outs):
                    bits = sim.model_bits(mod, S.vars)
                    free = {i: bits.get("v!" + i, 0) for i in A.inputs()}
                    mv = sim.evaluate(M, {i: free[i] for i in M.inputs()})
                    v0 = sim.evaluate(A, free)
                    v1 = sim.evaluate(A, free, override={n: lambda v: 1 - v})
                    dd = int(any(v0[o] != v1[o] for o in (ep or outs)))
                    d = dict(d2, inputs=free, sat_node=mv["sat"], inverting_n_changes_endpoint=dd)
                    return {"reproduced": mv["sat"] != dd, "sig": "sensitization:sat-wrong", "what": f"sensitization_transform: sat={mv['sat']} but inverting {n!r} changes a selected endpoint = {dd}", "detail": d}

                ok = ctx.prove("sensitization-sat", [z3.Xor(fm["sat"], D)], replay)
                if ep is None:
                    # props.sensitize
                    r, e = call(props.sensitize, build(spec), n)
                    q = z3.Solver()
                    q.add(D)
                    exists = q.check() == z3.sat
                    if e is not None and name_clash(A, e):
                        ctx.rejected("documented rejection: name overlap with the miter's own node names")
                    elif e is not None:
                        ctx.side("sensitize-raises", False, f"sensitize:raises:{type(e).__name__}", f"sensitize raised {e!r}", d2)
                    elif r is None:
                        ctx.side("sensitize-none", not exists, "sensitize:none-but-sensitizable", f"sensitize({n!r}) returned None although a sensitizing input exists", d2)
                    else:
                        good = exists and isinstance(r, dict) and set(r) == A.inputs()
                        if good:
                            free = {i: int(bool(r[i])) for i in A.inputs()}
                            v0 = sim.evaluate(A, free)
                            v1 = sim.evaluate(A, free, override={n: lambda v: 1 - v})
                            good = any(v0[o] != v1[o] for o in outs)
                        ctx.side("sensitize-witness", good, "sensitize:bad-witness", f"sensitize({n!r}) returned {r!r} which does not sensitize the node", d2)
            # ------------------------------------------------------- sensitivity_transform
            carg = build(spec)
            sen, e = call(tx.sensitivity_transform, carg, n)
            ctx.unchanged("sensitivity_transform", carg, spec)
            if e is not None:
                ctx.side("sensitivity_transform-raises", False, f"sensitivity_transform:raises:{type(e).__name__}", f"sensitivity_transform({n!r}) raised {e!r}", det)
                continue
            N = Net.of(sen)
            difs = {s: f"dif_out_{s}" for s in sp_n}
            nb = len([x for x in N.types if x.startswith("sen_out_")])
            okshape = N.is_acyclic() and N.inputs() == set(sp_n) and set(N.free()) == set(sp_n) and all(d in N.types for d in difs.values()) and (1 << nb) > len(sp_n) \
                and all(f"sen_out_{i}" in N.outputs() for i in range(nb))
            if not ctx.side("sensitivity_transform-shape", okshape, "sensitivity_transform:shape", f"unexpected shape: inputs {sorted(N.inputs())} vs startpoints {sp_n}, {nb} count bits", det):
                continue
            fs = S.fn(N, {i: env[i] for i in sp_n})
            refd = {}
            for s in sp_n:
                env_s = dict(env)
                env_s[s] = z3.Not(env[s])
                refd[s] = z3.Xor(base[n], S.fn(A, env_s)[n])
            W = nb + 1
            total = sum([z3.If(refd[s], z3.BitVecVal(1, W), z3.BitVecVal(0, W)) for s in sp_n])
            got = z3.ZeroExt(1, bv_of([fs[f"sen_out_{i}"] for i in range(nb)]))
            neg = z3.Or([z3.Xor(fs[difs[s]], refd[s]) for s in sp_n] + [got != total])

            def replay2(mod, N=N, A=A, n=n, sp_n=sp_n, nb=nb, det=det, S=S):
                bits = sim.model_bits(mod, S.vars)
                free = {i: bits.get("v!" + i, 0) for i in A.inputs()}
                sv = sim.evaluate(N, {i: free[i] for i in sp_n})
                v0 = sim.evaluate(A, free)[n]
                exp = {}
                for s in sp_n:
                    f2 = dict(free)
                    f2[s] = 1 - f2[s]
                    exp[s] = int(sim.evaluate(A, f2)[n] != v0)
                gotd = {s: sv[f"dif_out_{s}"] for s in sp_n}
                cnt = sum(sv[f"sen_out_{i}"] << i for i in range(nb))
                d = dict(det, inputs=free, dif_out=gotd, expected_dif=exp, sen_out=cnt)
                return {"reproduced": gotd != exp or cnt != sum(exp.values()), "sig": "sensitivity_transform:wrong", "what": f"sensitivity_transform({n!r}): dif_out {gotd} / count {cnt} vs definition {exp}", "detail": d}

            ok = ctx.prove("sensitivity_transform-bits", [neg], replay2)
            # -------------------------------------------------------------- props.sensitivity
            r, e = call(props.sensitivity, build(spec), n)
            if e is not None:
                ctx.side("sensitivity-raises", False, f"sensitivity:raises:{type(e).__name__}", f"sensitivity({n!r}) raised {e!r}", det)
            else:
                tot_int = sum([z3.If(refd[s], 1, 0) for s in sp_n])
                q = z3.Solver()
                a = q.check(tot_int >= r) == z3.sat if isinstance(r, int) else False
                b = q.check(tot_int >= r + 1) == z3.unsat if isinstance(r, int) else False
                ctx.r["obligations"] += 2
                ctx.r["unsat"] += 2 if (a and b) else 0
                if not (a and b):
                    ctx.r["sat"] += 1
                    ctx.r["replays"] += 1
                    # replay: compute the true maximum with the independent simulator
                    true = max_sensitivity(A, n, sp_n)
                    if true != r:
                        ctx.violation("sensitivity:not-maximum", f"sensitivity({n!r}) returned {r!r}, maximum over all valuations is {true}", dict(det, returned=r, maximum=true), tag="sensitivity-max")
                    else:
                        ctx.harness_error("sensitivity verdict did not reproduce", det)
            # ---------------------------------------------------------------- influence (exact)
            infl, e = call(props.influence, build(spec), n, approx=False)
            if e is not None and name_clash(A, e):
                ctx.rejected("documented rejection: name overlap with the miter's own node names")
            elif e is not None:
                ctx.side("influence-raises", False, sig_infl_raise(A, n, e), f"influence({n!r}, approx=False) raised {e!r}", det)
            else:
                okd = isinstance(infl, dict) and set(infl) == set(sp_n)
                ctx.side("influence-keys", okd, "influence:keys", f"influence keys {sorted(infl) if isinstance(infl, dict) else infl} != startpoints {sp_n}", det)
                if okd:
                    tot = 0
                    for s in sp_n:
                        cnt = count_models(refd[s], [S.vars["v!" + i] for i in sp_n])
                        ctx.count("model_count_certificates")
                        tot += cnt
                        ctx.side("influence-value", infl[s] * (2 ** len(sp_n)) == cnt, "influence:wrong-fraction", f"influence({n!r})[{s!r}] = {infl[s]} but {cnt}/{2 ** len(sp_n)} valuations flip", dict(det, startpoint=s))
                    av, e = call(props.avg_sensitivity, build(spec), n, approx=False)
                    ctx.side("avg_sensitivity", e is None and av is not None and abs(av * (2 ** len(sp_n)) - tot) < 1e-9, "avg_sensitivity:wrong", f"avg_sensitivity({n!r}) = {av!r} ({e!r}), sum of influences = {tot}/{2 ** len(sp_n)}", det)


def check_lists(ctx, props, spec, A, nodes, S, env, base, det0):
    """influence / avg_sensitivity with a LIST of nodes: dict of per-node results, each equal to the single-node definition"""
    import networkx as nx
    g = A.digraph()
    pairs = [nodes[:2], nodes[-2:], [nodes[0], nodes[-1]]] if len(nodes) >= 2 else []
    for ns in pairs:
        if len(set(ns)) < 2:
            continue
        det = dict(det0, nodes=ns)
        infl, e = call(props.influence, build(spec), list(ns), approx=False)
        if e is not None:
            if name_clash(A, e):
                ctx.rejected("documented rejection: name overlap with the miter's own node names")
            else:
                ctx.side("influence-list-raises", False, f"influence:raises:{type(e).__name__}", f"influence({ns}, approx=False) raised {e!r}", det)
            continue
        ok = isinstance(infl, dict) and set(infl) == set(ns)
        exp_tot = {}
        if ok:
            for n in ns:
                sp_n = sorted(({n} | nx.ancestors(g, n)) & A.inputs())
                ok = ok and isinstance(infl[n], dict) and set(infl[n]) == set(sp_n)
                tot = 0
                for s_ in sp_n:
                    env_s = dict(env)
                    env_s[s_] = z3.Not(env[s_])
                    cnt = count_models(z3.Xor(base[n], S.fn(A, env_s)[n]), [S.vars["v!" + i] for i in sp_n])
                    tot += cnt / (2 ** len(sp_n))
                    ok = ok and isinstance(infl[n], dict) and s_ in infl[n] and infl[n][s_] * (2 ** len(sp_n)) == cnt
                exp_tot[n] = tot
        ctx.side("influence-list", ok, "influence:list-of-nodes", f"influence({ns}) = {infl!r} differs from the per-node definition", det)
        av, e = call(props.avg_sensitivity, build(spec), list(ns), approx=False)
        ctx.side("avg_sensitivity-list", e is None and isinstance(av, dict) and set(av) == set(ns) and all(abs(av[n] - exp_tot.get(n, -1)) < 1e-9 for n in ns), "avg_sensitivity:list-of-nodes",
                 f"avg_sensitivity({ns}) = {av!r} ({e!r}), expected {exp_tot}", det)


def max_sensitivity(A, n, sp_n):
    import itertools
    best = 0
    others = sorted(A.inputs() - set(sp_n))
    for bits in itertools.product((0, 1), repeat=len(sp_n)):
        free = dict(zip(sp_n, bits))
        free.update({o: 0 for o in others})
        v0 = sim.evaluate(A, free)[n]
        k = 0
        for s in sp_n:
            f2 = dict(free)
            f2[s] = 1 - f2[s]
            k += sim.evaluate(A, f2)[n] != v0
        best = max(best, k)
    return best


def sig_sens_raise(n, ep, e):
    if isinstance(e, ValueError) and ep and n in ep and "not in fanin" in str(e):
        return "sensitization:node-is-endpoint"
    return f"sensitization:raises:{type(e).__name__}"


def sig_infl_raise(A, n, e):
    if isinstance(e, ValueError) and "not in fanin" in str(e) and A.types[n] == "input":
        return "sensitization:node-is-endpoint"
    return f"influence:raises:{type(e).__name__}"


def name_clash(A, e):
    """loud, documented rejection: the circuit uses a name the miter construction needs (sat, dif_*, c0_*, c1_*)"""
    if not isinstance(e, ValueError) or not ("already in circuit" in str(e) or "overlaps" in str(e)):
        return False
    return any(n == "sat" or n.startswith(("dif_", "c0_", "c1_")) for n in A.types)
