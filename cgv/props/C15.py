"""C15 - bench reader and writer are faithful (E1)."""
import random

from cgv import families as F
from cgv.core import call
from cgv.eq import mutate_one_gate, prove_equal, twin_differs
from cgv.net import Net, build, mkspec, wellformed

META = {
    "level": "translation_validation",
    "engine": "E1 artifact-level SMT: circuit parsed from a generated bench text proved equal, net by net, to the denotation of the AST the text was rendered from (DFF Q free, D pin = D net), for all valuations; write->read proved equal at every output",
    "hashseeds": {"quick": [0, 1], "thorough": [0, 1, 2, 3, 4, 5, 6, 7]},
    "shards": {"quick": 8, "thorough": 4},
    "bounds": {
        "quick": "programs rendered from F-unit(K<=4), F-shape, 30 random DAGs, each also with 1..3 DFFs (D from gates, inputs, other DFFs' Q incl. chains), repeated operands; 8 layouts (line order: writer order / outputs first / gates first / shuffled; upper/lower case keywords and gate names; BUF vs BUFF; blanks around `=`, `,` and inside parentheses, tabs and line breaks inside operand lists, blank and comment lines); writer round trip on blackbox-free members with and without 0/1 constants",
        "thorough": "300 random DAGs, 8 hash seeds",
    },
    "outside": ["the text space is a generated corpus, not symbolic (regex front end)", "white space between a gate name and its `(`, mixed-case keywords, several nets per INPUT()/OUTPUT() (not in the dialect the regexes document)", "constant x and blackboxes in the writer (rejected loudly)"],
    "assumptions": ["sem.py gate table", "harness-side AST denotation (ref_net)", "z3 sound"],
}


def programs(ctx):
    base = [c for c in F.f_unit(4)] + F.f_shape() + F.f_rand(ctx.seed, 30 if ctx.quick else 300, consts=False) + ([] if ctx.quick else F.f_small(2))
    base += F.f_wide((17, 33) if ctx.quick else (17, 18, 20, 32, 33, 40))
    # net names that contain the dialect's keywords as substrings (buffer_en, obuff, BUFF_SEL, nand_out, dffq, INPUTa, ...)
    base += F.renamed([c for c in F.f_unit(3) if c[0][0] == "pair"][:10] + [c for c in F.f_unit(3, pairs=False)][:12] + F.f_shape(), "bench")
    out = []
    for cid, spec in base:
        A = Net.from_spec(spec)
        if A.bbs or A.has_x() or any(t in ("0", "1") for t in A.types.values()) or not A.inputs():
            continue
        out.append((("bench",) + cid, ("read", spec, 0)))
        for k in (1, 2, 3):
            out.append((("bench",) + cid + ("dff", k), ("read", spec, k)))
    for t in ("and", "nand", "or", "nor", "xor", "xnor"):
        for k, pat in enumerate((["a", "a"], ["a", "a", "a"], ["a", "b", "a"], ["a", "a", "a", "a"], ["b", "a", "b", "b"], ["a", "b", "b", "a", "a"])):
            out.append((("benchrep", t, k), ("repeat", t, pat)))
    # single-input circuits with constants and nodes named <input><suffix> (helper names a writer might generate)
    for k, suf in enumerate(("_inv", "_not", "_n", "_b", "_buf", "_dup", "_0", "_1", "_tie", "_const")):
        nodes = [("a", "input", []), ("k0", "0", []), ("k1", "1", []), ("a" + suf, "and", ["a", "k1"], True), ("p", "or", ["a" + suf, "k0"], True), ("q", "xor", ["a", "k1", "k0"], True)]
        out.append((("benchrt", "suffix", suf), ("roundtrip", mkspec("suffix" + suf, nodes))))
    const_rand = F.f_rand(ctx.seed + 5, 10 if ctx.quick else 60, consts=True)
    for cid, spec in base + const_rand + F.reordered(const_rand + F.f_shape()):
        A = Net.from_spec(spec)
        if A.bbs or A.has_x() or not A.inputs():
            continue
        out.append((("benchrt",) + cid, ("roundtrip", spec)))
    return out


def make_ast(spec, ndff, rng):
    """spec (combinational DAG) -> bench AST; ndff inputs (where possible) become DFF Q nets"""
    A = Net.from_spec(spec)
    inputs = sorted(A.inputs())
    gates = [(n, A.types[n], list(A.preds[n])) for n in A.topo() if A.types[n] != "input"]
    outputs = sorted(A.outputs())
    dffs = []
    qs = []
    cand = list(inputs)
    rng.shuffle(cand)
    for q in cand[: min(ndff, max(0, len(inputs) - 1))]:
        qs.append(q)
    for q in qs:
        inputs.remove(q)
        if q not in outputs and rng.random() < 0.4:
            outputs.append(q)  # a flop's Q net that is itself a primary output
    for j, q in enumerate(qs):
        r = rng.random()
        if r < 0.3 and len(qs) > 1:
            d = qs[(j + 1) % len(qs)]  # another flop's Q (chain / ring)
        elif r < 0.5 and inputs:
            d = rng.choice(inputs)
        elif gates:
            d = rng.choice(gates)[0]
        else:
            d = rng.choice(inputs)
        dffs.append((q, d))
    # repeated operands (bench texts from tools do contain them, and the writer emits XOR(a,a))
    if gates and rng.random() < 0.35:
        g = rng.randrange(len(gates))
        n, t, ops = gates[g]
        if t not in ("buf", "not") and ops:
            gates[g] = (n, t, ops + [rng.choice(ops)])
    return {"inputs": inputs, "outputs": outputs, "gates": gates, "dffs": dffs}


def ref_net(ast, name):
    """denotation of a bench AST as a Net (repeated operands: parity counts multiplicity)"""
    nodes, edges, bbs = [], [], {}
    for i in ast["inputs"]:
        nodes.append([i, "input", i in ast["outputs"]])
    k = 0
    for n, t, ops in ast["gates"]:
        nodes.append([n, t, n in ast["outputs"]])
        seen = set()
        for o in ops:
            if o in seen:
                k += 1
                d = f"ref!dup{k}"
                nodes.append([d, "buf", False])
                edges += [[o, d], [d, n]]
            else:
                seen.add(o)
                edges.append([o, n])
    for q, d in ast["dffs"]:
        inst = f"{q}_dff"
        bbs[inst] = ["dff", ["D"], ["Q"]]
        nodes += [[q, "buf", q in ast["outputs"]], [f"{inst}.D", "bb_input", False], [f"{inst}.Q", "bb_output", False]]
        edges += [[d, f"{inst}.D"], [f"{inst}.Q", q]]
    return Net.from_spec({"name": name, "nodes": nodes, "edges": edges, "bbs": bbs})


def render(ast, layout, rng, name):
    up = layout % 2 == 0
    kw_in, kw_out = ("INPUT", "OUTPUT") if up else ("input", "output")
    style = layout % 4

    def sp(s):
        if style == 3:
            # tabs and line breaks inside the operand list (the reader documents that it strips blanks, tabs and newlines there)
            return s.replace(" = ", "\t=\t").replace(", ", ",\n\t").replace("(", "(\t", 1).replace(")", "\n)")
        if style == 0:
            return s
        if style == 1:
            return s.replace(" = ", "=").replace(", ", ",")
        return s.replace(" = ", "  =\t").replace(", ", " ,  ").replace("(", "( ", 1).replace(")", " )")

    def gname(t):
        if t == "buf":
            t = "buff" if rng.random() < 0.5 else "buf"
        return t.upper() if up else t

    ins = [f"{kw_in}({i})" if style != 2 else f"{kw_in} ( {i} )" for i in ast["inputs"]]
    outs = [f"{kw_out}({o})" if style != 2 else f"{kw_out}( {o})" for o in ast["outputs"]]
    gates = [sp(f"{n} = {gname(t)}({', '.join(ops)})") for n, t, ops in ast["gates"]]
    dffs = [sp(f"{q} = {'DFF' if up else 'dff'}({d})") for q, d in ast["dffs"]]
    order = (layout // 2) % 4
    if order == 0:
        lines = [f"# {name}"] + ins + [""] + outs + [""] + dffs + gates
    elif order == 1:
        lines = outs + ins + gates + dffs
    elif order == 2:
        g = gates + dffs
        rng.shuffle(g)
        lines = g + ["", "# io below"] + ins + outs
    else:
        lines = ins + outs + gates + dffs
        rng.shuffle(lines)
    return "\n".join(lines) + ("\n" if layout % 2 else "")


def run(ctx):
    import circuitgraph as cg
    from circuitgraph import io as cgio

    ctx.functions(cgio.bench_to_circuit, cgio.circuit_to_bench)
    for cid, p in ctx.cases(programs(ctx)):
        rng = random.Random(f"c15-{ctx.seed}-{cid}")
        if p[0] in ("read", "repeat"):
            if p[0] == "repeat":
                _, t, pat = p
                spec = {"name": f"rep_{t}"}
                ast = {"inputs": ["a", "b"], "outputs": ["y", "z"], "gates": [("y", t, list(pat)), ("w", "not", ["a"]), ("z", t, ["w"] + list(pat) + ["w"])], "dffs": []}
            else:
                _, spec, ndff = p
                ast = make_ast(spec, ndff, rng)
            E = ref_net(ast, spec["name"])
            for layout in range(8) if ctx.quick else range(32):
                text = render(ast, layout, random.Random(f"{cid}-{layout}"), spec["name"])
                det = {"case": cid, "layout": layout, "text": text[:1500]}
                if layout == 0:
                    ctx.sample({"case": cid, "text": text})
                c2, e = call(cgio.bench_to_circuit, text, spec["name"])
                if e is not None:
                    ctx.side("bench-reader-raises", False, sig_reader(ast, e), f"bench_to_circuit raised {type(e).__name__}: {str(e)[:150]}", det)
                    continue
                B = Net.of(c2)
                ctx.side("bench-io", B.inputs() == set(ast["inputs"]) and B.outputs() == set(ast["outputs"]), "bench-reader:io", f"inputs/outputs {sorted(B.inputs())}/{sorted(B.outputs())} != declared {ast['inputs']}/{ast['outputs']}", det)
                ctx.side("bench-registry", B.bbs == E.bbs, "bench-reader:registry", f"DFF instances {sorted(B.bbs)} != expected {sorted(E.bbs)}", det)
                nets = [n for n in E.nodes() if not n.startswith("ref!")]
                if not B.is_acyclic() and E.is_acyclic():
                    ctx.side("bench-shape", False, "bench-reader:shape", "parsed circuit is cyclic", det)
                    continue
                if not E.is_acyclic():
                    # DFF rings make the *graph* cyclic only through blackboxes, never combinationally; if it is, skip functional encoding
                    ctx.rejected("combinational cycle in generated program")
                    continue
                ok = prove_equal(ctx, "bench-denotation", E, B, [(n, n) for n in nets], sig=lambda bad, ast=ast: sig_denot(ast, bad), what="parsed bench circuit differs from the text's denotation", detail=det)
                ctx.lint_clean(c2, "bench_to_circuit")
                if ok and layout == 0:
                    w = mutate_one_gate(E.spec())
                    if w:
                        twin_differs(ctx, "twin-bench", Net.from_spec(w), B, [(n, n) for n in nets])
        else:
            _, spec = p
            A = Net.from_spec(spec)
            det = {"case": cid, "circuit": spec if len(spec["nodes"]) < 25 else None}
            carg = build(spec)
            text, e = call(cgio.circuit_to_bench, carg)
            ctx.unchanged("circuit_to_bench", carg, spec)
            if e is not None:
                ctx.side("bench-writer-raises", False, f"bench-writer:raises:{type(e).__name__}", f"circuit_to_bench raised {e!r}", det)
                continue
            det["text"] = text[:1500]
            ctx.sample({"case": cid, "written": text})
            c2, e = call(cgio.bench_to_circuit, text, spec["name"])
            if e is not None:
                ctx.side("bench-rt-reader-raises", False, f"bench-roundtrip:raises:{type(e).__name__}", f"reading back circuit_to_bench output raised {e!r}", det)
                continue
            B = Net.of(c2)
            ctx.side("bench-rt-io", B.inputs() == A.inputs() and B.outputs() == A.outputs(), "bench-roundtrip:io", f"inputs/outputs changed: {sorted(B.inputs() ^ A.inputs())}/{sorted(B.outputs() ^ A.outputs())}", det)
            if not B.is_acyclic() or not A.outputs() <= set(B.types):
                ctx.side("bench-rt-shape", False, "bench-roundtrip:shape", "read-back circuit cyclic or lacks an output", det)
                continue
            has_const = any(t in ("0", "1") for t in A.types.values())
            ok = prove_equal(ctx, "bench-roundtrip", A, B, [(o, o) for o in sorted(A.outputs())], sig="bench-roundtrip:constants" if has_const else "bench-roundtrip:function-changed",
                             what="bench write->read changed the function of an output", detail=det)
            ctx.lint_clean(c2, "bench-roundtrip")


def sig_reader(ast, e):
    qs = {q for q, _ in ast["dffs"]}
    if isinstance(e, ValueError) and "does not exist" in str(e) and any(d in qs for _, d in ast["dffs"]):
        return "bench-reader:dff-chain-order"
    return f"bench-reader:raises:{type(e).__name__}"


def sig_denot(ast, bad):
    dup = {n for n, t, ops in ast["gates"] if len(set(ops)) != len(ops) and t in ("xor", "xnor")}
    if dup:
        return "bench-reader:repeated-parity-operand"
    return "bench-reader:denotation"
