"""C18 - acyclic_unroll removes cycles and preserves stable states (E1, relational premise)."""
import z3

from cgv import families as F
from cgv import sem, sim
from cgv.core import call
from cgv.net import Net, build, wellformed
from cgv.sem import Sem

META = {
    "level": "translation_validation",
    "engine": "E1 artifact-level SMT: for ALL input valuations and ALL stable states (consistent valuations) of the cyclic circuit, the unrolled circuit with aux inputs at the stable values reproduces every output",
    "hashseeds": {"quick": [0, 1], "thorough": [0, 1, 2, 3, 4, 5, 6, 7]},
    "shards": {"quick": 8, "thorough": 4},
    "bounds": {
        "quick": "F-cyc (latches, even/odd rings, nested, overlapping, two SCCs, outputs inside/outside cycles) + 50 seeded random cyclic circuits (<=11 nodes, 1..3 back edges, no self-loops)",
        "thorough": "same + 500 random cyclic circuits, 8 hash seeds",
    },
    "outside": ["self-loops", "blackboxes (rejected)", "circuits outside the families", "oscillating (non-stable) behaviour: only fixed points are claimed"],
    "assumptions": ["sem.py gate table", "aux input <-> feedback node association read from the aux input's name suffix; if that fails z3 searches for any association (exists-forall)", "z3 sound"],
}


def big_rings(ctx):
    """long feedback paths: a ring of k gates (the search for back edges must not depend on the length of a path)"""
    from cgv.net import mkspec
    out = []
    for k in ((600,) if ctx.quick else (300, 600, 1500)):
        nodes = [("en", "input", [])] + [(f"r{j}", "and" if j == 0 else "buf", ([f"r{k - 1}", "en"] if j == 0 else [f"r{j - 1}"]), j == k // 2) for j in range(k)]
        out.append((("ring", k), mkspec(f"ring{k}", nodes)))
    return out


def all_cases(ctx):
    return big_rings(ctx) + F.f_cyc() + F.renamed(F.f_cyc(), "acyc") + F.renamed(F.f_cyc(), "acyc2") + F.f_rand_cyc(ctx.seed, 50 if ctx.quick else 500)


def run(ctx):
    from circuitgraph import tx

    ctx.functions(tx.acyclic_unroll)
    for cid, spec in ctx.cases(all_cases(ctx)):
        A = Net.from_spec(spec)
        if wellformed(A) or A.is_acyclic() or A.bbs or any(n in A.preds[n] for n in A.nodes()):
            ctx.rejected("family member outside the domain (acyclic, blackbox, or a self-loop: the property excludes self-loops)")
            continue
        ctx.sample({"case": cid, "circuit": spec})
        det = {"case": cid, "circuit": spec}
        carg = build(spec)
        res, e = call(tx.acyclic_unroll, carg)
        ctx.unchanged("acyclic_unroll", carg, spec)
        if e is not None and isinstance(e, ValueError) and ("already in circuit" in str(e) or "overlaps" in str(e)) and any(n.startswith("aux_in_") or (n[:1] == "c" and n[1:2].isdigit() and "_" in n) for n in A.types):
            ctx.rejected("documented rejection: a node is named like the nodes acyclic_unroll generates (aux_in_*, c<i>_*)")
            continue
        if e is not None:
            ctx.side("acyclic_unroll-raises", False, f"acyclic_unroll:raises:{type(e).__name__}", f"acyclic_unroll raised {e!r}", det)
            continue
        U = Net.of(res)
        ctx.side("acyclic", U.is_acyclic(), "acyclic_unroll:still-cyclic", "result is cyclic", det)
        bad = wellformed(U)
        ctx.side("lint-ref", not bad, "acyclic_unroll:not-lint-clean", f"result violates lint rules {bad[:3]}", det)
        ctx.lint_clean(res, "acyclic_unroll")
        ctx.side("outputs", U.outputs() == A.outputs(), "acyclic_unroll:outputs", f"outputs {sorted(U.outputs())} != {sorted(A.outputs())}", det)
        aux = sorted(U.inputs() - A.inputs())
        ctx.side("inputs", A.inputs() <= U.inputs(), "acyclic_unroll:inputs", f"original inputs missing: {sorted(A.inputs() - U.inputs())}", det)
        if not U.is_acyclic() or bad or U.outputs() != A.outputs() or not A.inputs() <= U.inputs():
            continue
        ctx.count("aux_inputs", len(aux))
        V = sem.boolvars("n!", A.nodes())
        R = sem.rel(A, V)
        import networkx as nx
        gA = A.digraph()
        on_cycle = {n for scc in nx.strongly_connected_components(gA) if len(scc) > 1 for n in scc}
        assoc = {}
        for x in aux:
            cand = [n for n in A.nodes() if x.endswith("aux_in_" + n)]
            cand.sort(key=len, reverse=True)
            if cand:
                assoc[x] = cand[0]
        S = Sem()
        s0 = z3.Solver()
        s0.add(R)
        stable = s0.check() == z3.sat
        ctx.count("members_with_stable_state" if stable else "members_without_stable_state")
        if len(assoc) == len(aux):
            ctx.side("aux-distinct", len(set(assoc.values())) == len(aux), "acyclic_unroll:aux-duplicated", "two auxiliary inputs for the same feedback node", det)
            off = sorted(x for x, n in assoc.items() if n not in on_cycle)
            ctx.side("aux-on-cycle", not off, "acyclic_unroll:aux-not-feedback", f"auxiliary inputs {off} do not belong to a node on a cycle (inputs must be the original inputs plus one per cut feedback node)", det)
            env = {i: V[i] for i in A.inputs()}
            env.update({x: V[assoc[x]] for x in aux})
            fu = S.fn(U, env)
            diff = z3.Or([z3.Xor(fu[o], V[o]) for o in sorted(A.outputs())])

            def replay(m, A=A, U=U, V=V, assoc=assoc, det=det):
                val = sim.model_bits(m, V)
                free = {i: val[i] for i in A.inputs()}
                free.update({x: val[n] for x, n in assoc.items()})
                uv = sim.evaluate(U, free)
                bad = [(o, uv[o], val[o]) for o in sorted(A.outputs()) if uv[o] != val[o]]
                d = dict(det)
                d.update({"stable_state": val, "bad": bad})
                return {"reproduced": sim.consistent(A, val) and bool(bad), "sig": "acyclic_unroll:stable-state-lost", "what": f"unrolled circuit does not reproduce a stable state at outputs {bad[:2]}", "detail": d}

            ok = ctx.prove("stable-states-preserved", [R, diff], replay)
            if ok and stable and aux:
                # twin: with the aux inputs inverted the stable state must NOT always be reproduced for at least... (only when it matters)
                env2 = dict(env)
                env2.update({x: z3.Not(V[assoc[x]]) for x in aux})
                fu2 = S.fn(U, env2)
                t = z3.Solver()
                t.add(R, z3.Or([z3.Xor(fu2[o], V[o]) for o in sorted(A.outputs())]))
                if t.check() == z3.sat:
                    ctx.twin("twin-aux-inverted", [R, z3.Or([z3.Xor(fu2[o], V[o]) for o in sorted(A.outputs())])])
                else:
                    ctx.count("aux_irrelevant")
        else:
            # association not readable from names: exists selectors . forall V
            ctx.count("assoc_by_search")
            nodes = sorted(on_cycle)  # an auxiliary input stands for a cut feedback node, i.e. a node on a cycle
            if not nodes:
                ctx.side("aux-on-cycle", False, "acyclic_unroll:aux-not-feedback", f"extra inputs {aux} although no node lies on a cycle", det)
                continue
            sel = {x: [z3.Bool(f"sel!{x}!{n}") for n in nodes] for x in aux}
            cons = [z3.PbEq([(b, 1) for b in sel[x]], 1) for x in aux]
            env = {i: V[i] for i in A.inputs()}
            for x in aux:
                env[x] = z3.Or([z3.And(b, V[n]) for b, n in zip(sel[x], nodes)])
            fu = S.fn(U, env)
            same = z3.And([fu[o] == V[o] for o in sorted(A.outputs())])
            q = z3.Solver()
            q.add(cons + [z3.ForAll(list(V.values()), z3.Implies(R, same))])
            r = q.check()
            ctx.r["obligations"] += 1
            if r == z3.sat:
                ctx.r["unsat"] += 1  # discharged (an association exists for which the property holds for all V)
            elif r == z3.unsat:
                ctx.r["sat"] += 1
                ctx.violation("acyclic_unroll:stable-state-lost", "no association of auxiliary inputs to circuit nodes reproduces all stable states", det, tag="stable-states-preserved")
            else:
                ctx.r["unknown"] += 1
                ctx.r["inconclusive"].append({"tag": "assoc-search", "case": cid})
