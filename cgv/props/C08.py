"""C08 - model counting and signal probability are exact (E1 + instrumented stand-in solver)."""
import os
import random
import tempfile

import z3

from cgv import families as F
from cgv import sem, sim
from cgv.core import call
from cgv.net import Net, build, mkspec, wellformed
from cgv.sem import Sem

META = {
    "level": "translation_validation",
    "engine": "E1 artifact-level SMT: the projections the real model_count loop enumerated (logged by the stand-in solver) are certified sound (one SAT query each on the reference relation) and complete (one UNSAT query); the DIMACS instance handed to approxmc is certified the same way",
    "hashseeds": {"quick": [0, 1], "thorough": [0, 1, 2, 3, 4, 5, 6, 7]},
    "shards": {"quick": 8, "thorough": 4},
    "bounds": {
        "quick": "F-shape + F-bb + F-cyc + constant-only circuits + wide circuits with 8 and 12 startpoints + 20 random DAGs; assumption sets: none, each of 4 seeded partial assignments (incl. internal nodes, constants), a contradictory one, a complete consistent one; signal_probability(approx=False) for every node of blackbox-free members (<=8 sampled); approx_model_count default mode via exact stand-in counter with DIMACS capture",
        "thorough": "same + 150 random DAGs, all nodes",
    },
    "outside": ["use_xor_clauses=True mode", "the real approxmc (an exact projected counter stands in)", "more than 12 startpoints"],
    "assumptions": ["sem.py relational semantics", "pysat stand-in logs exactly the models it hands out and the clauses added after construction", "z3 sound"],
}


def wide(k, t):
    ins = [(f"i{j}", "input", []) for j in range(k)]
    half = k // 2
    return (("wide", t, k), mkspec(f"wide_{t}_{k}", ins + [("p", t, [f"i{j}" for j in range(half)]), ("q", "or", [f"i{j}" for j in range(half, k)]), ("o", "xor", ["p", "q"], True), ("r", "nand", ["p", "i0"], True)]))


def all_cases(ctx):
    cs = F.f_shape() + F.f_bb() + F.f_cyc()
    cs.append((("constonly",), mkspec("constonly", [("k0", "0", []), ("k1", "1", []), ("o", "and", ["k0", "k1"], True), ("p", "xnor", ["k0", "k1"], True)])))
    cs += [wide(8, "and"), wide(8, "xor"), wide(12, "nor")]
    cs += F.f_rand(ctx.seed, 20 if ctx.quick else 150) + F.f_rand_bb(ctx.seed, 8 if ctx.quick else 60)
    return cs


def run(ctx):
    import circuitgraph as cg
    from circuitgraph import props
    from circuitgraph import sat as cgsat
    from pysat import solvers as shim_solvers

    ctx.functions(cgsat.model_count, cgsat.approx_model_count, props.signal_probability, cgsat.construct_solver)
    captured = {}
    real_construct = cgsat.construct_solver
    real_cnf = cgsat.cnf

    def construct_spy(*a, **k):
        r = real_construct(*a, **k)
        captured["solver"], captured["variables"] = r
        return r

    def cnf_spy(c):
        r = real_cnf(c)
        captured["cnf_variables"] = r[1]
        captured["cnf_nclauses"] = len(r[0].clauses)
        return r

    cgsat.construct_solver = construct_spy
    cgsat.cnf = cnf_spy
    try:
        for cid, spec in ctx.cases(all_cases(ctx)):
            A = Net.from_spec(spec)
            if wellformed(A):
                ctx.rejected("family member not lint-clean")
                continue
            one(ctx, cg, cgsat, props, captured, cid, spec, A)
    finally:
        cgsat.construct_solver = real_construct
        cgsat.cnf = real_cnf


def assumption_sets(A, V, R, rng):
    nodes = A.nodes()
    sets = [("none", {})]
    s = z3.Solver()
    s.add(R)
    if s.check() == z3.sat:
        m = s.model()
        full = {n: z3.is_true(m.eval(V[n], model_completion=True)) for n in nodes}
        sets.append(("complete-consistent", full))
        sets.append(("ints", {n: int(full[n]) for n in nodes[: max(1, len(nodes) // 2)]}))  # documented form: dict of str:int
        for i in range(4):
            k = rng.randint(1, min(3, len(nodes)))
            pick = rng.sample(nodes, k)
            sets.append((f"partial{i}", {n: (full[n] if rng.random() < 0.6 else not full[n]) for n in pick}))
    gates = [n for n in nodes if not A.is_free(n)]
    if gates and A.is_acyclic():
        g = gates[-1]
        # contradictory: a gate output against the value its (fixed) fan-in implies is not generally contradictory; use constants/inputs pairs instead
    consts = [n for n in nodes if A.types[n] in ("0", "1")]
    if consts:
        sets.append(("contradict-const", {consts[0]: A.types[consts[0]] == "0"}))
    bufs = [n for n in nodes if A.types[n] in ("buf", "not") and A.preds[n]]
    if bufs:
        b = bufs[0]
        sets.append(("contradict-buf", {b: True, A.preds[b][0]: A.types[b] == "not"}))
    return sets


def one(ctx, cg, cgsat, props, captured, cid, spec, A):
    rng = random.Random(f"c08-{ctx.seed}-{cid}")
    nodes = A.nodes()
    V = sem.boolvars("n!", nodes)
    R = sem.rel(A, V)
    sp = sorted(A.startpoints())
    if len(sp) > 12:
        ctx.rejected("more than 12 startpoints")
        return
    ctx.sample({"case": cid, "circuit": spec if len(nodes) < 25 else f"{len(nodes)} nodes", "startpoints": sp})
    for aname, asg in assumption_sets(A, V, R, rng):
        det = {"case": cid, "circuit": spec if len(nodes) < 25 else None, "assumptions": {k: bool(v) for k, v in asg.items()}}
        Aterm = [V[n] if b else z3.Not(V[n]) for n, b in asg.items()]
        captured.clear()
        carg = build(spec)
        cnt, e = call(cgsat.model_count, carg, dict(asg))
        ctx.unchanged("model_count", carg, spec)
        if e is not None:
            ctx.side("model_count-raises", False, f"model_count:raises:{type(e).__name__}", f"model_count raised {e!r}", det)
            continue
        solver, variables = captured["solver"], captured["variables"]
        ids = {s: variables.obj2id.get(s) for s in sp}
        if not ctx.side("model_count-vars", all(ids.values()), "model_count:startpoint-without-variable", "a startpoint has no CNF variable", det):
            continue
        B = []
        for mdl in solver.models:
            try:
                B.append(tuple(mdl[ids[s] - 1] > 0 for s in sp))
            except IndexError:
                B.append(None)
        ctx.side("model_count-count", cnt == len(B), "model_count:count-vs-enumeration", f"model_count returned {cnt} but enumerated {len(B)} models", det)
        ctx.side("model_count-distinct", None not in B and len(set(B)) == len(B), "model_count:duplicate-projection", "the enumeration visited a startpoint valuation twice", det)
        ref = z3.Solver()
        ref.add(R, *Aterm)
        # (i) every enumerated projection extends to a consistent valuation satisfying the assumptions
        unsound = None
        for b in B:
            if b is None:
                continue
            ctx.r["obligations"] += 1
            r = ref.check(*[V[s] if x else z3.Not(V[s]) for s, x in zip(sp, b)])
            if r == z3.sat:
                ctx.r["unsat"] += 1  # discharged
            elif r == z3.unsat:
                unsound = b
                ctx.r["sat"] += 1
            else:
                ctx.r["unknown"] += 1
        if unsound is not None:
            val = dict(zip(sp, unsound))
            ctx.r["replays"] += 1
            ctx.violation("model_count:counts-inconsistent-valuation", f"model_count counted startpoint valuation {val} which has no consistent extension under the assumptions", dict(det, valuation=val), tag="model_count-sound")

        # (ii) no other projection exists
        def replay(m, sp=sp, B=B, A=A, V=V, asg=asg, det=det, cnt=cnt):
            val = sim.model_bits(m, V)
            proj = tuple(bool(val[s]) for s in sp)
            ok = sim.consistent(A, val) and all(bool(val[n]) == bool(b) for n, b in asg.items()) and proj not in B
            return {"reproduced": ok, "sig": "model_count:misses-valuation", "what": f"model_count returned {cnt} but the consistent valuation with startpoints {dict(zip(sp, proj))} was not counted", "detail": dict(det, valuation=val)}

        block = [z3.Or([V[s] != x for s, x in zip(sp, b)]) if sp else sem.F for b in B if b is not None]
        ok = ctx.prove("model_count-complete", [R] + Aterm + block, replay)
        true_count = len(set(B)) if ok and unsound is None else None
        if true_count is not None and aname == "none":
            ctx.twin("twin-count-off-by-one", [R] + Aterm + block[:-1]) if B else None
        # ------------------------------------------------------------ approx_model_count (default mode)
        if true_count is not None and aname in ("none", "partial0", "contradict-buf", "complete-consistent"):
            approx(ctx, cgsat, captured, spec, A, asg, sp, true_count, det)
    # ---------------------------------------------------------------- signal_probability
    if not A.bbs and not A.has_x():
        import networkx as nx
        g = A.digraph()
        if A.is_acyclic():
            coneok = nodes
            Aeval = A
        else:
            # cyclic circuit: only nodes whose own cone is acyclic have a defined probability; evaluate them on the acyclic part
            cyc_nodes = {n for scc in nx.strongly_connected_components(g) if len(scc) > 1 or any(g.has_edge(n, n) for n in scc) for n in scc}
            coneok = [n for n in nodes if not (({n} | nx.ancestors(g, n)) & cyc_nodes)]
            keep = set()
            for n in coneok:
                keep |= {n} | nx.ancestors(g, n)
            sp_ = A.spec()
            Aeval = Net.from_spec({"name": sp_["name"], "nodes": [x for x in sp_["nodes"] if x[0] in keep], "edges": [e for e in sp_["edges"] if e[0] in keep and e[1] in keep], "bbs": {}})
        S = Sem()
        env = {i: S.var("v!" + i) for i in Aeval.free()}
        fv = S.fn(Aeval, env) if coneok else {}
        cand = coneok if (not ctx.quick or len(coneok) <= 8) else sorted(rng.sample(coneok, 8))
        from cgv.props.C11 import count_models
        for n in cand:
            spn = sorted(({n} | nx.ancestors(g, n)) & A.startpoints())
            p, e = call(props.signal_probability, build(spec), n, approx=False)
            det = {"case": cid, "circuit": spec if len(nodes) < 25 else None, "node": n}
            if e is not None:
                ctx.side("signal_probability-raises", False, f"signal_probability:raises:{type(e).__name__}", f"signal_probability({n!r}) raised {e!r}", det)
                continue
            k = count_models(fv[n], [S.vars["v!" + s] for s in spn])
            ctx.count("model_count_certificates")
            ctx.side("signal_probability-value", p * (2 ** len(spn)) == k, "signal_probability:wrong", f"signal_probability({n!r}) = {p} but {k}/{2 ** len(spn)} startpoint valuations make it 1", det)
        if not A.is_acyclic():
            # nodes whose cone contains a loop: "n is 1 under a startpoint valuation" is read relationally (some consistent valuation of the
            # cone has n = 1) and only claimed where that is unambiguous: no startpoint valuation admits both n = 0 and n = 1
            from cgv import sem as semmod
            loopy = [n for n in nodes if n not in coneok]
            for n in (loopy if (not ctx.quick or len(loopy) <= 4) else sorted(rng.sample(loopy, 4))):
                cone = {n} | nx.ancestors(g, n)
                sp_ = A.spec()
                C = Net.from_spec({"name": sp_["name"], "nodes": [x for x in sp_["nodes"] if x[0] in cone], "edges": [e for e in sp_["edges"] if e[0] in cone and e[1] in cone], "bbs": {}})
                spn = sorted(cone & A.startpoints())
                V1, V2 = semmod.boolvars("p!", C.nodes()), semmod.boolvars("q!", C.nodes())
                amb = z3.Solver()
                amb.add(semmod.rel(C, V1), semmod.rel(C, V2), V1[n], z3.Not(V2[n]), *[V1[s_] == V2[s_] for s_ in spn])
                if amb.check() != z3.unsat:
                    ctx.count("signal_probability_ambiguous_cyclic_cone")
                    continue
                p, e = call(props.signal_probability, build(spec), n, approx=False)
                det = {"case": cid, "circuit": spec if len(nodes) < 25 else None, "node": n, "cone": "contains a loop; value of the node unique for every startpoint valuation that has a stable state"}
                if e is not None:
                    ctx.side("signal_probability-raises", False, f"signal_probability:raises:{type(e).__name__}", f"signal_probability({n!r}) raised {e!r}", det)
                    continue
                k = count_models(z3.And(semmod.rel(C, V1), V1[n]), [V1[s_] for s_ in spn])
                ctx.count("model_count_certificates")
                ctx.side("signal_probability-value-cyclic-cone", p * (2 ** len(spn)) == k, "signal_probability:wrong", f"signal_probability({n!r}) = {p} but {k}/{2 ** len(spn)} startpoint valuations have a stable state with the node at 1", det)


def approx(ctx, cgsat, captured, spec, A, asg, sp, true_count, det):
    import importlib.util
    here = os.path.dirname(os.path.dirname(os.path.abspath(__file__)))
    spec_ = importlib.util.spec_from_file_location("approxmc_standin", os.path.join(here, "shim", "bin", "approxmc_standin.py"))
    mod_ = importlib.util.module_from_spec(spec_)
    spec_.loader.exec_module(mod_)
    parse = mod_.parse
    with tempfile.TemporaryDirectory(prefix="cgv_dimacs_") as td:
        out = os.path.join(td, "captured.cnf")
        os.environ["CGV_DIMACS_OUT"] = out
        try:
            captured.pop("cnf_variables", None)
            # the sampling set left to the default, or given explicitly (the same startpoints) as a list / a one-shot iterator ("iter of str")
            how = len(asg) % 3
            kw_sp = {} if how == 0 else {"startpoints": (sorted(sp) if how == 1 else iter(sorted(sp)))}
            det = dict(det, startpoints_argument=["default", "list of all startpoints", "iterator over all startpoints"][how])
            r, e = call(cgsat.approx_model_count, build(spec), dict(asg), **kw_sp)
        finally:
            os.environ.pop("CGV_DIMACS_OUT", None)
        if e is not None:
            ctx.side("approx-raises", False, f"approx_model_count:raises:{type(e).__name__}", f"approx_model_count raised {e!r}", det)
            return
        if not ctx.side("approx-file", os.path.exists(out), "approx_model_count:no-dimacs", "no DIMACS file reached the external counter", det):
            return
        text = open(out).read()
    ind, header, clauses = parse(text)
    variables = captured.get("cnf_variables")
    maxvar = max([abs(l) for c in clauses for l in c] + [0])
    ctx.side("dimacs-header", header is not None and header[1] == len(clauses) and header[0] >= maxvar, "approx_model_count:dimacs-header", f"DIMACS header {header} vs {len(clauses)} clauses, max variable {maxvar}", det)
    ids = sorted(variables.obj2id[s] for s in sp) if variables is not None and all(s in variables.obj2id for s in sp) else None
    ctx.side("dimacs-sampling-set", ind is not None and ids is not None and sorted(ind) == ids, "approx_model_count:sampling-set", f"sampling set {ind} is not exactly the startpoint variables {ids}", det)
    # projected model count of the DIMACS instance, certified against the reference count
    s = z3.Solver()
    X = {}

    def v(i):
        if i not in X:
            X[i] = z3.Bool(f"x{i}")
        return X[i]

    for c in clauses:
        s.add(z3.Or([v(l) if l > 0 else z3.Not(v(-l)) for l in c]) if c else sem.F)
    n = 0
    while s.check() == z3.sat:
        m = s.model()
        n += 1
        if not ind:
            break
        s.add(z3.Or([v(i) != m.eval(v(i), model_completion=True) for i in ind]))
        if n > 5000:
            break
    ctx.r["obligations"] += 1
    if n == true_count:
        ctx.r["unsat"] += 1
    else:
        ctx.r["sat"] += 1
        ctx.r["replays"] += 1
        ctx.violation("approx_model_count:dimacs-count", f"DIMACS instance has {n} models projected on its sampling set; the circuit has {true_count} startpoint valuations", dict(det, dimacs=text[:1500]), tag="dimacs-projected-count")
    ctx.side("approx-return", r == n, "approx_model_count:return", f"approx_model_count returned {r}, the counter printed {n}", det)
