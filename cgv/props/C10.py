"""C10 - ternary encoding computes Kleene three-valued simulation (E1)."""
import z3

from cgv import families as F
from cgv import sim
from cgv.core import call
from cgv.net import Net, build, wellformed
from cgv.sem import Sem

META = {
    "level": "translation_validation",
    "engine": "E1 artifact-level SMT: companion nodes of tx.ternary(c) proved equal to a dual-rail Kleene reference for all (value, X) input pairs",
    "hashseeds": {"quick": [0, 1], "thorough": [0, 1, 2, 3, 4, 5, 6, 7]},
    "shards": {"quick": 8, "thorough": 4},
    "bounds": {
        "quick": "F-unit K=1..5 for all 8 types + type pairs, F-shape (incl. 0/1 constants), names resembling the companion/helper names, 30 random DAGs (<=12 gates, arity<=5); ALL 3^|inputs| ternary patterns and both binary values under X (inputs: Bool value + Bool X flag)",
        "thorough": "same + every circuit with 2 inputs, a constant and <=2 gates (4464) + 300 random DAGs + 40 DAGs with 24 gates, 8 hash seeds",
    },
    "outside": ["blackboxes and constant x (rejected by the function with ValueError)", "circuits outside the families"],
    "assumptions": ["sem.py Kleene table is the specification of gate-by-gate three-valued evaluation", "z3 sound"],
}


def collision_cases():
    """nodes named like the helper nodes tx.ternary creates (<p>_is_0, <p>_is_1, <p>_not_x, <g>_x_in_fi, <g>_0_not_in_fi, <g>_1_not_in_fi, <n>_X)"""
    from cgv.net import mkspec
    out = []
    for t in ("and", "nand", "or", "nor", "xor"):
        I = [("a", "input", []), ("b", "input", [])]
        named = [("a_is_0", "nor", ["a", "b"]), ("a_is_1", "and", ["a", "b"]), ("b_is_0", "xor", ["a", "b"]), ("a_not_x", "not", ["a"]), ("b_not_x", "buf", ["b"]),
                 ("g_x_in_fi", "or", ["a", "b"]), ("g_0_not_in_fi", "xor", ["a", "b"]), ("g_1_not_in_fi", "xnor", ["a", "b"]), ("a_X", "nand", ["a", "b"]), ("g_X", "nor", ["a", "a_X"])]
        g = [("g", t, ["a", "b"], True), ("h", t, ["g", "a_is_0", "a_not_x"], True), ("o", "or", [n for n, _, _ in named], True)]
        out.append((("collide", t), mkspec(f"collide_{t}", I + named + g)))
    return out


def all_cases(ctx):
    from cgv.props.C03 import x_cases
    cs = F.f_unit(5) + F.f_shape() + x_cases() + collision_cases() + F.reordered(F.f_shape() + [c for c in F.f_unit(3) if c[0][0] == "pair"][:12])
    cs += F.renamed([c for c in F.f_unit(3) if c[0][0] == "pair"][:12] + [c for c in F.f_unit(3, pairs=False)], "ternary")
    cs += F.f_rand(ctx.seed, 30 if ctx.quick else 300)
    if not ctx.quick:
        import random
        cs += [(("rand24", ctx.seed, i), F.rand_dag(random.Random(f"c10-24-{ctx.seed}-{i}"), n_in=4, n_gates=24, name=f"r24_{i}")) for i in range(40)]
        cs += F.f_small(2, consts=True)
    return cs


def run(ctx):
    from circuitgraph import tx

    ctx.functions(tx.ternary)
    for cid, spec in ctx.cases(all_cases(ctx)):
        A = Net.from_spec(spec)
        if wellformed(A) or not A.is_acyclic() or A.bbs:
            ctx.rejected("family member outside the domain")
            continue
        if A.has_x():
            # the function documents no support for constant x: it must reject it loudly (a silent encoding of x as a known value is a violation)
            r_, e_ = call(tx.ternary, build(spec))
            ctx.side("ternary-x-rejected", isinstance(e_, ValueError), "ternary:accepts-constant-x", f"ternary on a circuit with a constant x: expected ValueError, got {type(e_).__name__ if e_ else 'a result'}", {"case": cid, "circuit": spec})
            continue
        ctx.sample({"case": cid, "circuit": spec})
        det = {"case": cid, "circuit": spec if len(spec["nodes"]) < 25 else None}
        carg = build(spec)
        res, e = call(tx.ternary, carg)
        ctx.unchanged("ternary", carg, spec)
        if e is not None:
            ctx.side("ternary-raises", False, f"ternary:raises:{type(e).__name__}", f"ternary raised {e!r}", det)
            continue
        t, mapping = res
        Tn = Net.of(t)
        nodes = A.nodes()
        ok_map = isinstance(mapping, dict) and set(mapping) == set(nodes) and len(set(mapping.values())) == len(nodes) and all(m in Tn.types for m in mapping.values()) \
            and not (set(mapping.values()) & set(nodes))
        ctx.side("ternary-mapping", ok_map, "ternary:mapping", "mapping is not an injective map from the nodes of c to new nodes of the result", det)
        if not ok_map or not Tn.is_acyclic():
            continue
        ins = sorted(A.inputs())
        exp_in = set(ins) | {mapping[i] for i in ins}
        ctx.side("ternary-inputs", Tn.inputs() == exp_in, "ternary:inputs", f"inputs of the result {sorted(Tn.inputs())} != inputs + companions", det)
        ctx.side("ternary-outputs", A.outputs() <= Tn.outputs() and Tn.outputs() <= A.outputs() | {mapping[o] for o in A.outputs()}, "ternary:outputs", "outputs of the result are not the outputs (+ companions)", det)
        ctx.lint_clean(t, "ternary")
        v = {i: z3.Bool(f"v!{i}") for i in ins}
        x = {i: z3.Bool(f"x!{i}") for i in ins}
        K = Sem(kleene=True)
        kref = K.fn(A, {i: (z3.And(v[i], z3.Not(x[i])), z3.And(z3.Not(v[i]), z3.Not(x[i]))) for i in ins})
        B = Sem()
        envt = {}
        for f in Tn.free():
            if f in v:
                envt[f] = v[f]
            else:
                src = [i for i in ins if mapping[i] == f]
                envt[f] = x[src[0]] if src else B.var("m!" + f)
        ft = B.fn(Tn, envt)
        fc = B.fn(A, v)
        bad_x = z3.Or([z3.Xor(ft[mapping[n]], z3.Not(z3.Or(kref[n][0], kref[n][1]))) for n in nodes])
        bad_v = z3.Or([z3.And(z3.Or(kref[n][0], kref[n][1]), z3.Xor(ft[n], kref[n][0])) for n in nodes])
        bad_c = z3.Or([z3.Xor(ft[n], fc[n]) for n in nodes])

        def replay(m, A=A, Tn=Tn, mapping=mapping, ins=ins, v=v, x=x, det=det):
            vb, xb = sim.model_bits(m, v), sim.model_bits(m, x)
            kv = sim.evaluate(A, {i: ("x" if xb[i] else vb[i]) for i in ins})
            free = {}
            for f in Tn.free():
                if f in vb:
                    free[f] = vb[f]
                else:
                    src = [i for i in ins if mapping[i] == f]
                    free[f] = xb[src[0]] if src else 0
            tv = sim.evaluate(Tn, free)
            cv = sim.evaluate(A, vb)
            bad = []
            for n in A.nodes():
                if tv[mapping[n]] != (1 if kv[n] == "x" else 0):
                    bad.append((n, "X-flag", tv[mapping[n]], kv[n]))
                elif kv[n] != "x" and tv[n] != kv[n]:
                    bad.append((n, "value", tv[n], kv[n]))
                if tv[n] != cv[n]:
                    bad.append((n, "original-node-changed", tv[n], cv[n]))
            d = dict(det)
            d.update({"values": vb, "xflags": xb, "bad": bad[:5]})
            return {"reproduced": bool(bad), "sig": "ternary:" + (bad[0][1] if bad else "?"), "what": f"ternary encoding disagrees with Kleene evaluation at {bad[:1]}", "detail": d}

        ok = ctx.prove("ternary-xflag", [bad_x], replay)
        ctx.prove("ternary-value", [bad_v], replay)
        ctx.prove("ternary-contains-c", [bad_c], replay)
        if ok:
            # twin: the pessimistic reference (X whenever any fan-in is X) must be refuted somewhere in the family;
            # per circuit: asking the X flag to be constant 0 must be refutable when the circuit has an input
            if ins:
                ctx.twin("twin-xflag-not-const", [z3.Or([ft[mapping[n]] for n in nodes])])
