"""C01 - Tseitin CNF / solve() exact for circuit semantics (E1)."""
import random

import z3

from cgv import families as F
from cgv import sem, sim
from cgv.core import call
from cgv.net import Net, build, mkspec, wellformed

META = {
    "level": "translation_validation",
    "engine": "E1 artifact-level SMT: real sat.cnf() output vs relational gate semantics (UNSAT + 2QBF)",
    "hashseeds": {"quick": [0, 1], "thorough": [0, 1, 2, 3, 4, 5, 6, 7]},
    "shards": {"quick": 8, "thorough": 4},
    "bounds": {
        "quick": "families F-unit(K<=5, type pairs at arity 2,3) + F-shape + F-bb + F-cyc + aux-name collision circuits + 30 seeded random DAGs (<=12 gates, arity<=5); for each: ALL node valuations and ALL aux-variable values (2QBF); solve(): empty, every single literal (<=40 nodes), solver-generated consistent/inconsistent total and partial assignments, non-node key",
        "thorough": "same + every circuit with 2 inputs and <=2 gates (1078, all 8 types, every fan-in subset) + 300 random DAGs (<=24 gates) + bundled c17/s27/c432/c499 netlists, 8 hash seeds",
    },
    "outside": ["circuits outside the families", "constant x (cnf rejects it with ValueError)", "real python-sat (z3-backed stand-in with the same IDPool/CNF/model API)", "hash seeds not listed"],
    "assumptions": ["sem.py gate table is the specification", "pysat stand-in is API-faithful (IDPool numbering, CNF.nv, model length)", "z3 5.1.0 sound"],
    "rule": "case = circuit structure; evaluation = case under one hash seed; non-trivial = has at least one gate",
}


def collision_cases():
    I = lambda *ns: [(n, "input", []) for n in ns]
    out = []
    for t in ("xor", "xnor"):
        al = [f"xor_{p}_{q}" for p in "abc" for q in "abc" if p != q]
        out.append((("collide3", t), mkspec(f"collide3_{t}", I("a", "b", "c", *al) + [("g", t, ["a", "b", "c"], True), ("o", "or", al, True)])))
        al4 = [f"xor_{p}_{q}" for p in "abcd" for q in "abcd" if p != q]
        out.append((("collide4", t), mkspec(f"collide4_{t}", I("a", "b", "c", "d", *al4) + [("g", t, ["a", "b", "c", "d"], True), ("o", "and", al4, True)])))
    out.append((("collide_inv",), mkspec("collide_inv", I("a", "b", "xor_inv_g") + [("g", "xnor", ["a", "b"], True), ("o", "and", ["g", "xor_inv_g"], True)])))
    out.append((("collide_inv3",), mkspec("collide_inv3", I("a", "b", "c", "xor_inv_g") + [("g", "xnor", ["a", "b", "c"]), ("o", "xor", ["g", "xor_inv_g"], True)])))
    # a *gate* (not input) carrying an aux-looking name
    out.append((("collide_gate",), mkspec("collide_gate", I("a", "b", "c") + [("xor_a_b", "and", ["a", "b"]), ("xor_b_a", "or", ["a", "b"]), ("xor_a_c", "and", ["a", "c"]), ("xor_c_a", "or", ["a", "c"]),
                                                                       ("xor_b_c", "and", ["c", "b"]), ("xor_c_b", "or", ["c", "b"]), ("g", "xor", ["a", "b", "c"], True),
                                                                       ("o", "xnor", ["xor_a_b", "xor_b_a", "xor_a_c", "xor_c_a", "xor_b_c", "xor_c_b"], True)])))
    return out


def all_cases(ctx):
    cs = F.f_unit(5) + F.f_shape() + F.f_bb() + F.f_cyc() + collision_cases() + F.reordered(F.f_shape() + F.f_bb())
    cs += F.renamed([c for c in F.f_unit(3) if c[0][0] == "pair" and ("xor" in c[0][1:3] or "xnor" in c[0][1:3])], "cnf_aux")
    cs += F.f_rand_bb(ctx.seed, 12 if ctx.quick else 100)
    if ctx.quick:
        cs += F.f_rand(ctx.seed, 30)
    else:
        cs += F.f_rand(ctx.seed, 300, n_gates=None) + [(("rand24", ctx.seed, i), F.rand_dag(random.Random(f"c01-24-{ctx.seed}-{i}"), n_in=random.Random(i).randint(2, 6), n_gates=24, name=f"r24_{i}")) for i in range(60)]
        cs += [(("lib", n), ("lib", n)) for n in ("c17", "s27", "c432", "c499")]
        cs += F.f_small(2)  # EVERY circuit with 2 inputs and <= 2 gates
    return cs


def guess_aux_defs(formula, variables, V):
    """aux id -> z3 term over node variables, guessed from 3-literal clauses as (negated) xor of two defined variables"""
    node_ids = {i for obj, i in variables.obj2id.items() if obj in V}
    allv = {abs(l) for c in formula.clauses for l in c}
    aux = allv - node_ids
    tri = {}
    for c in formula.clauses:
        vs = sorted({abs(l) for l in c})
        if len(c) == 3 and len(vs) == 3:
            tri.setdefault(tuple(vs), []).append(c)
    term = {i: V[obj] for obj, i in variables.obj2id.items() if obj in V}
    progress = True
    while progress and aux - set(term):
        progress = False
        for x in sorted(aux - set(term)):
            for vs, cls in tri.items():
                if x not in vs or len(cls) != 4:
                    continue
                p_, q_ = [v for v in vs if v != x]
                if p_ not in term or q_ not in term:
                    continue
                for neg in (False, True):
                    ok = True
                    for pv in (0, 1):
                        for qv in (0, 1):
                            xv = (pv ^ qv) ^ (1 if neg else 0)
                            val = {p_: pv, q_: qv, x: xv}
                            ok &= all(any((val[abs(l)] == 1) == (l > 0) for l in c) for c in cls)
                    if ok:
                        t = z3.Xor(term[p_], term[q_])
                        term[x] = z3.Not(t) if neg else t
                        progress = True
                        break
                if x in term:
                    break
    if aux - set(term):
        return None
    return {i: term[i] for i in aux}


def cnf_terms(formula, variables, V, defs=None):
    """z3 conjunction of the clause list; node variables shared with V, the rest are aux X_i (or the given definitions)"""
    id2 = dict(defs or {})
    for obj, i in variables.obj2id.items():
        if obj in V:
            id2[i] = V[obj]
    X = {}

    def lit(l):
        i = abs(l)
        t = id2.get(i)
        if t is None:
            t = X.get(i)
            if t is None:
                t = X[i] = z3.Bool(f"aux!{i}")
        return t if l > 0 else z3.Not(t)

    cls = [z3.Or([lit(l) for l in c]) if c else sem.F for c in formula.clauses]
    return (z3.And(cls) if cls else sem.T), list(X.values())


def run(ctx):
    import circuitgraph as cg
    from circuitgraph import sat as cgsat

    ctx.functions(cgsat.cnf, cgsat.add_assumptions, cgsat.construct_solver, cgsat.solve)
    rng = random.Random(f"c01-{ctx.seed}")
    for cid, spec in ctx.cases(all_cases(ctx)):
        if spec[0] == "lib" if isinstance(spec, tuple) else False:
            mk = (lambda name=spec[1]: cg.from_lib(name))
            c = mk()
            net = Net.of(c)
        else:
            # replays must use a circuit built exactly like `c` (same insertion order => same set iteration order)
            mk = (lambda spec=spec: build(spec))
            c = mk()
            net = Net.from_spec(spec)
            if wellformed(net):
                ctx.rejected("not lint-clean (outside the property's domain)")
                continue
        ctx.sample({"case": cid, "circuit": net.spec() if len(net.types) < 20 else f"{len(net.types)} nodes"})
        nodes = net.nodes()
        V = sem.boolvars("n!", nodes)
        R = sem.rel(net, V)
        res, err = call(cgsat.cnf, c)
        if err is not None:
            ctx.side("cnf-raises", False, f"cnf:raises:{type(err).__name__}", f"cnf() raised {err!r} on a lint-clean circuit", {"case": cid})
            continue
        formula, variables = res
        ctx.side("cnf-pure", Net.of(c).spec() == net.spec(), "cnf:mutates-argument", "cnf() changed its argument")
        missing = [n for n in nodes if n not in variables.obj2id]
        ctx.side("cnf-vars", not missing, "cnf:node-without-variable", f"nodes without CNF variable: {missing[:3]}")
        if missing:
            continue
        CNF, X = cnf_terms(formula, variables, V)

        def replay_sound(m, c=c, net=net, V=V, mk=mk):
            val = sim.model_bits(m, V)
            r, e = call(cgsat.solve, mk(), {n: bool(b) for n, b in val.items()})
            ok = (not sim.consistent(net, val)) and isinstance(r, dict)
            return {"reproduced": ok, "sig": "cnf:unsound", "what": "cnf admits an inconsistent valuation (solve returns it)",
                    "detail": {"valuation": val, "solve": str(r)[:300], "err": repr(e)}}

        def replay_complete(m, c=c, net=net, V=V, mk=mk):
            val = sim.model_bits(m, V)
            r, e = call(cgsat.solve, mk(), {n: bool(b) for n, b in val.items()})
            ok = sim.consistent(net, val) and (r is False or e is not None)
            return {"reproduced": ok, "sig": classify_incomplete(net), "what": "a consistent valuation is excluded by cnf(): solve() returns False for it",
                    "detail": {"valuation": val, "solve": str(r)[:300], "err": repr(e), "circuit": net.spec() if len(nodes) < 30 else None}}

        ctx.prove("O1-sound", [CNF, z3.Not(R)], replay_sound)
        if not X:
            ctx.prove("O2-complete", [R, z3.Not(CNF)], replay_complete)
        else:
            # completeness = forall V (R(V) -> exists X CNF(V,X)).  First try an explicit witness X := defs(V) guessed from the
            # clause list (each aux = xor of two already defined variables); with a witness the query is quantifier-free.
            # The guess is not trusted: if it fails (or its counterexample does not replay) the 2QBF query decides.
            done = False
            defs = guess_aux_defs(formula, variables, V)
            if defs is not None:
                CNFw, _ = cnf_terms(formula, variables, V, defs)
                s = z3.Solver()
                s.set("timeout", 60000)
                s.add(R, z3.Not(CNFw))
                r = s.check()
                if r == z3.unsat:
                    ctx.r["obligations"] += 1
                    ctx.r["unsat"] += 1
                    ctx.count("completeness_by_witness")
                    done = True
                elif r == z3.sat:
                    rep = replay_complete(s.model())
                    if rep["reproduced"]:
                        ctx.r["obligations"] += 1
                        ctx.r["sat"] += 1
                        ctx.r["replays"] += 1
                        ctx.violation(rep["sig"], rep["what"], rep["detail"], tag="O2-complete")
                        done = True
            if not done:
                ctx.count("completeness_by_2qbf")
                ctx.prove("O2-complete", [R, z3.ForAll(X, z3.Not(CNF))], replay_complete)
        # vacuity: the reference relation is satisfiable unless the circuit has no stable state
        s = z3.Solver()
        s.add(R)
        has_model = s.check() == z3.sat
        ctx.count("circuits_with_consistent_valuation" if has_model else "circuits_without_consistent_valuation")
        # twin: a wrong oracle (one gate's relation negated) must be refuted
        gates = [n for n in nodes if not net.is_free(n) and net.types[n] not in ("0", "1")]
        if gates and has_model:
            g = gates[len(gates) // 2]
            wrong = V[g] != sem.gate_bool(net.types[g], [V[p] for p in net.preds[g]])
            # O1 with the wrong oracle (gate g's relation negated) must be refutable, i.e. SAT
            ctx.twin("twin-wrong-gate", [CNF, z3.Not(wrong)])
        solve_api(ctx, cgsat, net, V, R, rng, cid, mk)
        # history on ONE object: encode, change a gate type in place (same names and wiring), encode again
        flip = {"and": "or", "or": "and", "nand": "nor", "nor": "nand", "xor": "xnor", "xnor": "xor", "buf": "not", "not": "buf"}
        victims = [n for n in nodes if net.types[n] in flip and net.preds[n]]
        if victims and len(nodes) <= 40:
            c_h = mk()
            call(cgsat.cnf, c_h)
            v_ = victims[len(victims) // 2]
            c_h.set_type(v_, flip[net.types[v_]])
            net2 = Net.of(c_h)
            res2, err2 = call(cgsat.cnf, c_h)
            if err2 is None:
                V2 = sem.boolvars("n!", net2.nodes())
                CNF2, X2 = cnf_terms(res2[0], res2[1], V2)
                R2 = sem.rel(net2, V2)

                def replay_hist(m, net2=net2, V2=V2):
                    val = sim.model_bits(m, V2)
                    return {"reproduced": not sim.consistent(net2, val), "sig": "cnf:stale-after-in-place-edit", "what": "cnf() of a circuit that was edited in place after an earlier cnf() call admits a valuation inconsistent with the edited circuit",
                            "detail": {"case": cid, "edited_node": v_, "valuation": val}}
                ctx.prove("O1-sound-after-edit", [CNF2, z3.Not(R2)], replay_hist)


def classify_incomplete(net):
    """known-finding signature: aux-variable name aliasing (a node is named like an aux variable of a parity gate)"""
    names = set(net.types)
    for n, t in net.types.items():
        if t in ("xor", "xnor") and len(net.preds[n]) >= 2:
            if t == "xnor" and f"xor_inv_{n}" in names:
                return "cnf:aux-name-aliasing"
            if len(net.preds[n]) > 2 and any(m.startswith("xor_") for m in names):
                return "cnf:aux-name-aliasing"
    return "cnf:incomplete"


def solve_api(ctx, cgsat, net, V, R, rng, cid, mk):
    """O4: verdicts of the real solve() against z3 on the reference relation"""
    nodes = net.nodes()
    ref = z3.Solver()
    ref.add(R)

    def ref_sat(A):
        r = ref.check(*[V[n] if b else z3.Not(V[n]) for n, b in A.items()])
        if r == z3.unknown:
            raise RuntimeError("reference unknown")
        return r == z3.sat

    asets = [{}]
    if len(nodes) <= 40:
        for n in nodes:
            asets += [{n: True}, {n: False}]
    else:
        for n in rng.sample(nodes, 20):
            asets += [{n: rng.random() < 0.5}]
    if ref.check() == z3.sat:
        m = ref.model()
        full = {n: z3.is_true(m.eval(V[n], model_completion=True)) for n in nodes}
        asets.append(dict(full))
        for n in rng.sample(nodes, min(4, len(nodes))):
            a = dict(full)
            a[n] = not a[n]
            asets.append(a)
        internal = [n for n in nodes if not net.is_free(n)]
        for _ in range(6):
            k = rng.randint(1, min(4, len(nodes)))
            asets.append({n: rng.random() < 0.5 for n in rng.sample(internal or nodes, min(k, len(internal or nodes)))})
    # ints as truth values (documented: dict of str:int)
    asets.append({nodes[0]: 1})
    asets.append({nodes[-1]: 0})
    for A in asets:
        c = mk()
        r, e = call(cgsat.solve, c, dict(A))
        ctx.count("solve_calls")
        exp = ref_sat({n: bool(b) for n, b in A.items()})
        if e is not None:
            ctx.side("solve-raises", False, f"solve:raises:{type(e).__name__}", f"solve() raised {e!r}", {"case": cid, "A": A})
            continue
        if r is False:
            ctx.side("solve-false", not exp, classify_incomplete(net) if exp else None,
                     "solve() returned False although a consistent valuation agrees with the assumptions", {"case": cid, "A": A, "circuit": net.spec() if len(nodes) < 30 else None})
        else:
            ok = exp and isinstance(r, dict) and set(r) == set(nodes) and all(bool(r[n]) == bool(b) for n, b in A.items()) \
                and sim.consistent(net, {n: int(bool(b)) for n, b in r.items()})
            ctx.side("solve-model", ok, "solve:bad-model", "solve() returned a valuation that is not a consistent extension of the assumptions",
                     {"case": cid, "A": A, "ret": str(r)[:300], "expected_sat": exp})
    c = mk()
    r, e = call(cgsat.solve, c, {"__no_such_node__": True})
    ctx.side("solve-nonnode", isinstance(e, ValueError), "solve:non-node-not-rejected", f"assumption on a non-node: expected ValueError, got {r!r} / {e!r}")
