"""C04 - miter output is 1 exactly when the compared circuits differ (E1)."""
import random

import z3

from cgv import families as F
from cgv import sim
from cgv.core import call
from cgv.eq import mutate_one_gate
from cgv.net import Net, build, rename, wellformed
from cgv.sem import Sem

META = {
    "level": "translation_validation",
    "engine": "E1 artifact-level SMT: fn(miter)[sat] proved equal to OR of endpoint differences of two independently encoded copies, all valuations of tied and untied signals",
    "hashseeds": {"quick": [0, 1], "thorough": [0, 1, 2, 3, 4, 5, 6, 7]},
    "shards": {"quick": 8, "thorough": 4},
    "bounds": {
        "quick": "circuit pairs (c,None), (c,copy), (c,restructured-equivalent), (c,one-gate mutant), (c, c with one input renamed) for c in F-shape + F-unit(K<=3, no pairs) + 20 random DAGs; startpoint choices: default, all shared, each strict subset of size n-1; endpoint choices: default, each single endpoint, 2 random subsets; solve(m,{sat:1}) verdict vs z3 on the reference",
        "thorough": "same with 100 random DAGs and 8 hash seeds",
    },
    "outside": ["empty set of compared endpoints (`sat` is then an undriven buffer)", "startpoints that are not startpoints of both circuits", "circuits with blackboxes or constant x (rejected by the code)"],
    "assumptions": ["sem.py gate table", "pysat stand-in for the solve() verdict", "z3 sound"],
}


def restructure(spec, rng):
    """harness-side equivalent rewrite: De Morgan, double negation, parity polarity"""
    s = {"name": spec["name"] + "_rs", "nodes": [list(n) for n in spec["nodes"]], "edges": [list(e) for e in spec["edges"]], "bbs": {}}
    names = {n[0] for n in s["nodes"]}
    k = [0]

    def fresh():
        k[0] += 1
        while f"rs{k[0]}" in names:
            k[0] += 1
        names.add(f"rs{k[0]}")
        return f"rs{k[0]}"

    dm = {"and": "nor", "or": "nand", "nand": "or", "nor": "and"}
    for nd in list(s["nodes"]):
        n, t = nd[0], nd[1]
        fi = [u for u, v in s["edges"] if v == n]
        if not fi:
            continue
        r = rng.random()
        if t in dm and r < 0.6:
            nd[1] = dm[t]
            for u in fi:
                x = fresh()
                s["nodes"].append([x, "not", False])
                s["edges"].remove([u, n])
                s["edges"] += [[u, x], [x, n]]
        elif t in ("xor", "xnor") and r < 0.6 and len(fi) >= 1:
            nd[1] = "xnor" if t == "xor" else "xor"
            u = fi[0]
            x = fresh()
            s["nodes"].append([x, "not", False])
            s["edges"].remove([u, n])
            s["edges"] += [[u, x], [x, n]]
        elif r < 0.8:
            u = fi[0]
            x, y = fresh(), fresh()
            s["nodes"] += [[x, "not", False], [y, "not", False]]
            s["edges"].remove([u, n])
            s["edges"] += [[u, x], [x, y], [y, n]]
    return s


def all_cases(ctx):
    base = F.f_shape() + [c for c in F.f_unit(3, pairs=False)] + F.f_rand(ctx.seed, 20 if ctx.quick else 100, consts=None)
    base += F.renamed([c for c in F.f_unit(3) if c[0][0] == "pair"][:8] + F.f_shape()[:5], "miter2")
    base += F.renamed([c for c in F.f_unit(3) if c[0][0] == "pair"][:6] + F.f_shape()[:6], "miter3")
    out = []
    for cid, spec in base:
        for variant in ("self", "copy", "restructured", "mutant", "renamed_input", "input_is_gate", "tieoff_flipped"):
            out.append((cid + (variant,), (spec, variant)))
    return out


def run(ctx):
    import circuitgraph as cg
    from circuitgraph import sat as cgsat
    from circuitgraph import tx

    ctx.functions(tx.miter, cg.Circuit.add_subcircuit)
    for cid, (spec0, variant) in ctx.cases(all_cases(ctx)):
        rng = random.Random(f"c04-{ctx.seed}-{cid}")
        A0 = Net.from_spec(spec0)
        if wellformed(A0) or not A0.is_acyclic() or A0.bbs or A0.has_x():
            ctx.rejected("family member outside the domain")
            continue
        if variant == "self":
            spec1 = None
        elif variant == "copy":
            spec1 = spec0
        elif variant == "restructured":
            spec1 = restructure(spec0, rng)
        elif variant == "mutant":
            spec1 = mutate_one_gate(spec0, rng.randint(0, 50))
            if spec1 is None:
                ctx.rejected("no gate to mutate")
                continue
        elif variant == "tieoff_flipped":
            # both circuits get a tie-off that is an endpoint: 0 in c0, 1 in c1 (the copies then differ for EVERY valuation)
            spec0 = dict(spec0, nodes=[list(n) for n in spec0["nodes"]] + [["zk_tie", "0", True]])
            spec1 = dict(spec0, nodes=[list(n) for n in spec0["nodes"][:-1]] + [["zk_tie", "1", True]])
            A0 = Net.from_spec(spec0)
        elif variant == "input_is_gate":
            # c1: one input of c0 is an internal gate (of fresh inputs) there, so it is NOT a shared startpoint
            ins = sorted(A0.inputs())
            victim = ins[-1]
            t = rng.choice(["and", "or", "xor", "nand"])
            spec1 = {"name": spec0["name"] + "_ig", "nodes": [[n, (t if n == victim else ty), o] for n, ty, o in spec0["nodes"]] + [["zp_" + victim, "input", False], ["zq_" + victim, "input", False]],
                     "edges": [list(e) for e in spec0["edges"]] + [["zp_" + victim, victim], ["zq_" + victim, victim]], "bbs": {}}
        else:
            ins = sorted(A0.inputs())
            victim = ins[0]
            spec1 = rename(spec0, lambda n: "z9_" + n if n == victim else n)
        A1 = Net.from_spec(spec1) if spec1 is not None else A0
        ctx.sample({"case": cid, "c0": spec0, "c1": spec1})
        shared_sp = sorted(A0.startpoints() & A1.startpoints())
        shared_ep = sorted(A0.endpoints() & A1.endpoints())
        if not shared_ep:
            ctx.rejected("no shared endpoint")
            continue
        sp_choices = [None]
        if shared_sp:
            sp_choices.append(list(shared_sp))
            if len(shared_sp) > 1:
                for drop in (shared_sp[:2] if ctx.quick else shared_sp):
                    sp_choices.append([s for s in shared_sp if s != drop])
        ep_choices = [None] + [[e] for e in shared_ep]
        for _ in range(2):
            if len(shared_ep) > 2:
                ep_choices.append(rng.sample(shared_ep, rng.randint(2, len(shared_ep) - 1)))
        combos = [(sp, ep) for sp in sp_choices for ep in ep_choices]
        if ctx.quick and len(combos) > 8:
            combos = combos[:4] + rng.sample(combos[4:], 4)
        for sp, ep in combos:
            c0 = build(spec0)
            c1 = build(spec1) if spec1 is not None else None
            as_list = (len(det_combo := (sp, ep)) and (hash(str(det_combo)) % 2 == 0))
            conv = (lambda x: sorted(x)) if as_list else (lambda x: set(x))
            conv_sp = (lambda x: iter(sorted(x))) if (hash(str((sp, ep, 1))) % 3 == 0 and sp) else conv  # startpoints also as a one-shot iterator
            # the argument objects are created once and used for two calls, as a caller who keeps his choice in a variable does;
            # a None choice is passed as None or (every other time) by leaving the argument out
            sp_arg = conv_sp(sp) if sp is not None else None
            ep_arg = conv(ep) if ep is not None else None
            kw = {}
            omit = hash(str((sp, ep, 2))) % 2 == 0
            if sp_arg is not None or not omit:
                kw["startpoints"] = sp_arg
            if ep_arg is not None or not omit:
                kw["endpoints"] = ep_arg
            for attempt in (0, 1):
                if attempt == 1 and (sp_arg is not None and iter(sp_arg) is sp_arg):
                    break  # a one-shot iterator cannot be used twice
                if attempt == 1 and not (kw.get("startpoints") or kw.get("endpoints") or omit):
                    break  # nothing a second call could see differently
                verify_call(ctx, tx, cgsat, c0, c1, kw, spec0, spec1, A0, A1, cid, sp, ep, shared_sp, shared_ep, attempt)


def verify_call(ctx, tx, cgsat, c0, c1, kw, spec0, spec1, A0, A1, cid, sp, ep, shared_sp, shared_ep, attempt):
    m, e = call(tx.miter, c0, c1, **kw)
    ctx.unchanged("miter", c0, spec0)
    if c1 is not None:
        ctx.unchanged("miter", c1, spec1)
    det = {"case": cid, "c0": spec0, "c1": spec1, "startpoints": sp, "endpoints": ep, "call_number_with_the_same_argument_objects": attempt + 1, "arguments_left_out": sorted({"startpoints", "endpoints"} - set(kw))}
    if e is not None and isinstance(e, ValueError) and ("already in circuit" in str(e) or "overlaps" in str(e)):
        allnames = set(A0.types) | set(A1.types)
        made = {"sat"} | {f"dif_{x}" for x in allnames} | {f"c0_{x}" for x in A0.types} | {f"c1_{x}" for x in A1.types}
        if allnames & made:
            ctx.rejected("documented rejection: a node is named like a node the miter creates")
            return
    if e is not None:
        ctx.side("miter-raises", False, f"miter:raises:{type(e).__name__}", f"miter raised {e!r}", det)
        return
    tied = shared_sp if sp is None else sp
    # default: when startpoints is empty/None the code ties the shared startpoints
    if sp is not None and not sp:
        tied = shared_sp
    cmp_ep = shared_ep if not ep else ep
    M = Net.of(m)
    ctx.side("miter-inputs", M.inputs() == set(tied), "miter:inputs-not-tied-startpoints", f"miter inputs {sorted(M.inputs())} != tied startpoints {sorted(tied)}", det)
    ctx.side("miter-output", M.outputs() == {"sat"}, "miter:outputs", f"miter outputs are {sorted(M.outputs())}", det)
    S = Sem()
    env0 = {f: S.var(("t!" if f in tied else "a!") + f) for f in A0.free()}
    env1 = {f: S.var(("t!" if f in tied else "b!") + f) for f in A1.free()}
    f0, f1 = S.fn(A0, env0), S.fn(A1, env1)
    D = z3.Or([z3.Xor(f0[x], f1[x]) for x in cmp_ep])
    envm, names_m, bad_free = {}, {}, []
    for f in M.free():
        if f in tied and M.types[f] == "input":
            names_m[f] = "t!" + f
        elif f.startswith("c0_") and f[3:] in A0.types and A0.is_free(f[3:]):
            names_m[f] = ("t!" if f[3:] in tied else "a!") + f[3:]
        elif f.startswith("c1_") and f[3:] in A1.types and A1.is_free(f[3:]):
            names_m[f] = ("t!" if f[3:] in tied else "b!") + f[3:]
        else:
            bad_free.append(f)
            names_m[f] = "m!" + f
        envm[f] = S.var(names_m[f])
    # a tied startpoint left undriven in a copy would show up as a!/b! sharing t! (same variable): to be strict,
    # undriven copies of TIED startpoints are independent signals
    for f in M.free():
        if (f.startswith("c0_") or f.startswith("c1_")) and f[3:] in tied:
            names_m[f] = "m!" + f
            envm[f] = S.var(names_m[f])
    if "sat" not in M.types or not M.is_acyclic():
        ctx.side("miter-sat-node", False, "miter:no-sat-node", "miter has no node `sat` / is cyclic", det)
        return
    fm = S.fn(M, envm)

    def replay(model, S=S, M=M, A0=A0, A1=A1, names_m=names_m, tied=tied, cmp_ep=cmp_ep, det=det):
        bits = sim.model_bits(model, S.vars)
        vm = sim.evaluate(M, {f: bits.get(v, 0) for f, v in names_m.items()})
        v0 = sim.evaluate(A0, {f: bits.get(("t!" if f in tied else "a!") + f, 0) for f in A0.free()})
        v1 = sim.evaluate(A1, {f: bits.get(("t!" if f in tied else "b!") + f, 0) for f in A1.free()})
        d = int(any(v0[x] != v1[x] for x in cmp_ep))
        dd = dict(det)
        dd.update({"valuation": bits, "sat_node": vm["sat"], "endpoints_differ": d})
        return {"reproduced": vm["sat"] != d, "sig": "miter:sat-not-difference", "what": f"miter `sat`={vm['sat']} but endpoints differ={d}", "detail": dd}

    ok = ctx.prove("miter-sat-iff-differ", [z3.Xor(fm["sat"], D)], replay)
    if ok:
        ctx.twin("twin-miter-and", [z3.Xor(fm["sat"], z3.Not(D))])
    # API verdict: solve(m, {sat: True}) is False <=> the copies agree on every compared endpoint
    s = z3.Solver()
    s.add(D)
    r = s.check()
    differ = r == z3.sat
    res, e = call(cgsat.solve, m, {"sat": True})
    ctx.count("solve_calls")
    if e is not None:
        ctx.side("miter-solve-raises", False, sig_solve_raise(M, e), f"solve(miter, sat=1) raised {e!r}", det)
    else:
        ctx.side("miter-solve-verdict", (res is False) == (not differ), "miter:solve-verdict", f"solve(miter,{{sat:1}}) returned {'False' if res is False else 'a model'} but circuits {'differ' if differ else 'are equivalent'}", det)
    ctx.count("pairs_equivalent" if not differ else "pairs_differing")


def sig_solve_raise(M, e):
    if isinstance(e, IndexError) and any(M.is_free(n) and M.types[n] not in ("input", "bb_output") for n in M.nodes()):
        return "cnf:undriven-node-without-clause"
    return f"miter:solve-raises:{type(e).__name__}"
