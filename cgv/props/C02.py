"""C02 - Verilog parser yields the circuit the netlist denotes (E1)."""
import random

from cgv import vgen
from cgv.core import call
from cgv.eq import mutate_one_gate, prove_equal, twin_differs
from cgv.net import Net

META = {
    "level": "translation_validation",
    "engine": "E1 artifact-level SMT: circuit parsed from a generated netlist proved equal, at every declared net and blackbox input pin, to a reference compiled from the generating AST, for all valuations of inputs and blackbox outputs (Kleene dual-rail for 1'bx)",
    "hashseeds": {"quick": [0, 1], "thorough": [0, 1, 2, 3]},
    "shards": {"quick": 8, "thorough": 4},
    "bounds": {
        "quick": "300 generated programs (<=6 statements, expression depth <=3, 1..4 inputs; name pools: plain, synthetic-looking (not_a, and_a_b, ...), escaped identifiers, tie-like) x 3 of 32 layouts (minimal vs full parentheses, blanks/tabs/newlines, comments, port/declaration/statement order incl. use before definition); port-list mismatches of the three kinds must raise",
        "thorough": "3000 programs (<=10 statements, depth <=4) x 6 layouts + every expression of depth <=2 over 3 identifiers (minimal and full parentheses)",
    },
    "outside": ["the text space is a bounded generated corpus, not symbolic (LALR + regex lexing of symbolic strings is out of reach)", "nested / parenthesised ternaries and chained unary operators without parentheses (not in the grammar)", "ternary in programs that contain 1'bx (Verilog's X-select merge is not Kleene)", "undriven wires", "comments containing `);` or `endmodule`"],
    "assumptions": ["sem.py gate / Kleene tables", "harness-side AST->circuit reference compiler vgen.compile_ref (precedence ~ > & > ^,~^ > | > ?: as in IEEE 1364)", "z3 sound"],
}

POOLSEQ = ["plain", "plain", "synthetic", "plain", "escaped", "plain", "ties", "synthetic"]


def all_cases(ctx):
    n = 300 if ctx.quick else 3000
    cs = [(("prog", ctx.seed, i), ("prog", i)) for i in range(n)]
    cs += [(("repeat", k), ("repeat", k)) for k in range(len(REPEATS))]
    if not ctx.quick:
        cs += [(("exprs", k), ("exprs", k)) for k in range(16)]
    return cs


# operand patterns with repetitions (primitive instances and operators): every multi-input type at each pattern
PATTERNS = [["a", "a"], ["a", "a", "a"], ["a", "b", "a"], ["a", "a", "a", "a"], ["b", "a", "b", "b"], ["a", "b", "b", "a", "a"]]
REPEATS = [(t, pat) for t in ("and", "nand", "or", "nor", "xor", "xnor") for pat in PATTERNS]


def repeat_prog(k):
    t, pat = REPEATS[k]
    op = {"and": "&", "nand": "&", "or": "|", "nor": "|", "xor": "^", "xnor": "~^"}[t]
    e = ("id", pat[0])
    for x in pat[1:]:
        e = (op, e, ("id", x))
    stmts = [("prim", t, [("U1", "y1", [("id", x) for x in pat])]), ("assign", [("y2", e)]), ("assign", [("y3", ("~", e))]),
             ("prim", "buf", [("U2", "w1", [("id", "a")])]), ("prim", t, [("U3", "y4", [("id", "w1")] + [("id", x) for x in pat])])]
    return {"name": "top", "inputs": ["a", "b"], "outputs": ["y1", "y2", "y3", "y4"], "wires": ["w1"], "stmts": stmts, "bbs": {}}, "plain"


def make_prog(ctx, i):
    rng = random.Random(f"c02-{ctx.seed}-{i}")
    pool = POOLSEQ[i % len(POOLSEQ)]
    with_x = i % 7 == 3
    consts = ("0", "1", "x") if with_x else ("0", "1")
    prog = vgen.gen_program(rng, pool, nstmts=rng.randint(2, 6 if ctx.quick else 10), depth=3 if ctx.quick else rng.choice([3, 4]), consts=consts, boxes=i % 3 != 0,
                            name="top", dup_ok=(pool == "plain" and i % 4 == 1))
    if with_x:
        strip_ternary(prog)
    return prog, pool


def strip_ternary(prog):
    def fix(e):
        if e[0] == "?":
            return ("|", ("&", fix(e[1]), fix(e[2])), fix(e[3]))
        if e[0] in ("id", "c"):
            return e
        return (e[0],) + tuple(fix(x) for x in e[1:])
    st2 = []
    for st in prog["stmts"]:
        if st[0] == "prim":
            st2.append(("prim", st[1], [(i, o, [fix(x) for x in ops]) for i, o, ops in st[2]]))
        elif st[0] == "assign":
            st2.append(("assign", [(l, fix(e)) for l, e in st[1]]))
        else:
            st2.append(("box", st[1], st[2], {p: (fix(e) if e is not None else None) for p, e in st[3].items()}))
    prog["stmts"] = st2


def declared(prog):
    return list(prog["inputs"]) + [o for o in prog["outputs"] if o not in prog["inputs"]] + list(prog["wires"])


def run(ctx):
    import circuitgraph as cg
    from circuitgraph import io as cgio
    from circuitgraph.parsing import verilog as pv

    T = pv._VerilogCircuitGraphTransformer
    ctx.functions(cgio.verilog_to_circuit, pv.parse_verilog_netlist, T.module, T.module_instantiation, T.assignment, T.add_node, T.not_gate, T.xor_gate, T.xnor_gate, T.and_gate, T.or_gate, T.ternary, T.named_port_connection)
    import hashlib
    import os
    g = os.path.join(os.path.dirname(pv.__file__), "verilog.lark")
    ctx.r["functions"]["circuitgraph/parsing/verilog.lark"] = hashlib.sha256(open(g, "rb").read()).hexdigest()[:16]
    for cid, p in ctx.cases(all_cases(ctx)):
        if p[0] == "exprs":
            exhaustive_exprs(ctx, cgio, p[1])
            continue
        prog, pool = repeat_prog(p[1]) if p[0] == "repeat" else make_prog(ctx, p[1])
        bbl = [cg.BlackBox(n, i, o) for n, (i, o) in sorted(vgen.BOXES.items())]
        ref = vgen.compile_ref(prog)
        E = Net.from_spec(ref)
        if not E.is_acyclic():
            ctx.harness_error("generated program is cyclic")
            continue
        nl = 3 if ctx.quick else 6
        layouts = [(p[1] * 7 + 11 * j) % 32 for j in range(nl)] if p[0] == "prog" else [0, 1]
        for layout in layouts:
            text = vgen.render_program(prog, layout, random.Random(f"lay-{cid}-{layout}"))
            det = {"case": cid, "pool": pool, "layout": layout, "text": text[:2500]}
            if layout == layouts[0]:
                ctx.sample({"case": cid, "text": text})
            c, e = call(cgio.verilog_to_circuit, text, "top", False, bbl)
            if e is not None:
                ctx.side("parser-raises", False, classify(prog, pool, f"raises:{type(e).__name__}"), f"verilog_to_circuit raised {type(e).__name__}: {str(e)[:160]}", det)
                continue
            B = Net.of(c)
            ok = ctx.side("ports", B.inputs() == set(prog["inputs"]) and B.outputs() == set(prog["outputs"]), classify(prog, pool, "ports"),
                          f"inputs/outputs {sorted(B.inputs())}/{sorted(B.outputs())} != declared {prog['inputs']}/{prog['outputs']}", det)
            ctx.side("registry", B.bbs == E.bbs, classify(prog, pool, "registry"), f"blackbox instances {B.bbs} != {E.bbs}", det)
            nets = [n for n in declared(prog)]
            pins = [n for n, t in E.types.items() if t == "bb_input"]
            pinsout = [n for n, t in E.types.items() if t == "bb_output"]
            missing = [n for n in nets + pins + pinsout if n not in B.types]
            if missing or not B.is_acyclic():
                ctx.side("nets-present", False, classify(prog, pool, "net-missing"), f"declared nets / pins missing from the parsed circuit: {missing[:4]} (or cyclic)", det)
                continue
            pinbad = [q for q in pinsout if B.types[q] != "bb_output" or B.succs[q] != E.succs[q]]
            ctx.side("bb-output-nets", not pinbad, classify(prog, pool, "pin-net"), f"blackbox output pins attached to other nets: {pinbad[:3]}", det)
            r = prove_equal(ctx, "denotation", E, B, [(n, n) for n in nets + pins], sig=lambda bad, prog=prog, pool=pool: classify(prog, pool, "denotation"),
                            what="parsed circuit differs from the netlist's denotation", detail=det)
            ctx.lint_clean(c, "verilog_to_circuit", undriven=False)
            if r and layout == layouts[0] and not E.has_x():
                w = flip_declared(ref, [n for n in nets if n not in prog["inputs"]], p[1])
                if w:
                    twin_differs(ctx, "twin-denotation", Net.from_spec(w), B, [(n, n) for n in nets + pins])
        # the requested module must be the one that is parsed, also when other modules with related names surround it
        if p[0] == "prog" and p[1] % 4 == 0:
            other = lambda nm: f"module {nm} (a, y);\n  input a;\n  output y;\n  not U1 (y, a);\nendmodule\n"
            base0 = vgen.render_program(prog, 0, random.Random(2))
            multi = other("top_sub") + other("topx") + base0 + other("atop") + other("to")
            det = {"case": cid, "text": multi[:2500]}
            c, e = call(cgio.verilog_to_circuit, multi, "top", False, bbl)
            if e is not None:
                ctx.side("multi-module-raises", False, "verilog-reader:module-selection", f"selecting module top among several raised {type(e).__name__}: {str(e)[:120]}", det)
            else:
                Bm = Net.of(c)
                ctx.side("multi-module-name", c.name == "top" and Bm.inputs() == set(prog["inputs"]) and Bm.outputs() == set(prog["outputs"]), "verilog-reader:module-selection",
                         f"asked for module top, got {c.name!r} with ports {sorted(Bm.inputs())}/{sorted(Bm.outputs())}", det)
                nets_m = [n for n in declared(prog) if n in Bm.types]
                if Bm.is_acyclic() and len(nets_m) == len(declared(prog)):
                    prove_equal(ctx, "multi-module-denotation", E, Bm, [(n, n) for n in nets_m], sig="verilog-reader:module-selection", what="the module parsed is not the requested one", detail=det)
            only = other("topper")
            c, e = call(cgio.verilog_to_circuit, only, "top", False, bbl)
            ctx.side("module-prefix-not-found", isinstance(e, ValueError), "verilog-reader:module-selection", f"module `top` requested but only `topper` exists: expected ValueError, got {type(e).__name__ if e else 'a circuit named ' + repr(c.name)}", {"case": cid, "text": only})
        # port lists that disagree with the declarations must be rejected
        base = vgen.render_program(prog, 0, random.Random(1))
        hdr_end = base.index(");")
        hdr, rest = base[:hdr_end], base[hdr_end:]
        victims = []
        ins_only = [i for i in prog["inputs"] if i not in prog["outputs"]]
        outs_only = [o for o in prog["outputs"] if o not in prog["inputs"]]

        def drop(h, name):
            toks = [t.strip() for t in h[h.index("(") + 1:].split(",")]
            toks = [t for t in toks if t != name.strip() and t != vgen.ident(name).strip()]
            return h[: h.index("(") + 1] + " " + " , ".join(vgen.ident(t) if t.startswith("\\") else t for t in toks) + " "
        if ins_only and len(prog["inputs"]) + len(outs_only) > 1:
            victims.append(("input-not-in-port-list", drop(hdr, ins_only[0]) + rest))
        if outs_only and len(prog["inputs"]) + len(outs_only) > 1:
            victims.append(("output-not-in-port-list", drop(hdr, outs_only[-1]) + rest))
        victims.append(("undeclared-port", hdr + ", zz_undeclared " + rest))
        plain_wires = [w for w in prog["wires"] if not w.startswith("\\")]
        if plain_wires:
            victims.append(("wire-only-port", hdr + ", " + plain_wires[0] + " " + rest))
        for kind, text in victims:
            c, e = call(cgio.verilog_to_circuit, text, "top", False, bbl)
            ctx.side("portlist-" + kind, e is not None, f"verilog-reader:portlist-accepted:{kind}", f"port list mismatch ({kind}) silently accepted", {"case": cid, "text": text[:1500]})
            ctx.count("portlist_mismatches_rejected" if e is not None else "portlist_mismatches_accepted")


def classify(prog, pool, what):
    """signatures for known findings: predicates on the generating AST"""
    SYN = ("not_", "and_", "or_", "xor_", "xnor_", "mux_")
    if any(n.startswith(SYN) for n in declared(prog)):
        return "verilog-reader:synthetic-name-capture"
    if any(n in ("tie_0", "tie_1", "tie_x") for n in declared(prog)):
        return "verilog-reader:reserved-tie-name"
    rep = False
    for st in prog["stmts"]:
        if st[0] == "prim":
            for _, _, ops in st[2]:
                if len({repr(o) for o in ops}) != len(ops) or any(vgen.has_repeated_leaf_operand(o) for o in ops):
                    rep = True
        elif st[0] == "assign":
            rep |= any(vgen.has_repeated_leaf_operand(e) for _, e in st[1])
        else:
            rep |= any(e is not None and vgen.has_repeated_leaf_operand(e) for e in st[3].values())
    if rep:
        return "verilog-reader:repeated-operand"
    return "verilog-reader:" + what


def exhaustive_exprs(ctx, cgio, k):
    """every expression of depth <= 2 over identifiers a, b, c, both parenthesisation styles (chunk k of 16)"""
    ex = vgen.all_exprs(["a", "b", "c"], 2)
    chunk = ex[k::16]
    B = 40
    for i in range(0, len(chunk), B):
        part = chunk[i:i + B]
        for full in (False, True):
            prog = {"name": "top", "inputs": ["a", "b", "c"], "outputs": [f"y{j}" for j in range(len(part))], "wires": [], "stmts": [("assign", [(f"y{j}", e)]) for j, e in enumerate(part)], "bbs": {}}
            text = vgen.render_program(prog, 1 if full else 0, random.Random(0))
            E = Net.from_spec(vgen.compile_ref(prog))
            c, e = call(cgio.verilog_to_circuit, text, "top")
            det = {"case": ["exprs", k, i, full], "text": text[:3000]}
            if e is not None:
                ctx.side("exprs-raises", False, classify(prog, "plain", f"raises:{type(e).__name__}"), f"parser raised {e!r}", det)
                continue
            Bn = Net.of(c)
            prove_equal(ctx, "exprs-denotation", E, Bn, [(o, o) for o in prog["outputs"]], sig=lambda bad, prog=prog: classify(prog, "plain", "denotation"), what="expression parsed with wrong meaning", detail=det)
            ctx.count("expressions", len(part))


def flip_declared(ref, nets, k):
    """wrong oracle for the vacuity twin: negate one declared (compared) net of the reference"""
    flip = {"and": "nand", "nand": "and", "or": "nor", "nor": "or", "xor": "xnor", "xnor": "xor", "buf": "not", "not": "buf"}
    driven = {v for _, v in ref["edges"]}
    cand = [n for n in nets if n in driven]
    if not cand:
        return None
    victim = cand[k % len(cand)]
    s = {"name": ref["name"], "nodes": [list(n) for n in ref["nodes"]], "edges": ref["edges"], "bbs": ref["bbs"]}
    for nd in s["nodes"]:
        if nd[0] == victim and nd[1] in flip:
            nd[1] = flip[nd[1]]
            return s
    return None
