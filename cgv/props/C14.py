"""C14 - fast Verilog parser agrees with the full parser on its documented subset (E1, differential)."""
import random
import re

from cgv import families as F
from cgv.core import call
from cgv.eq import prove_equal
from cgv.net import Net, mkspec, rename, wellformed

META = {
    "level": "translation_validation",
    "engine": "E1 artifact-level SMT (differential): circuit from verilog_to_circuit(fast=True) proved equal to the full parser's circuit at every output and blackbox input pin for all valuations; ports, registry, pin nets and graph identity (modulo constant-node names) compared concretely",
    "hashseeds": {"quick": [0, 1], "thorough": [0, 1, 2, 3]},
    "shards": {"quick": 8, "thorough": 4},
    "bounds": {
        "quick": "restricted-subset netlists rendered from F-unit(K<=4), F-shape, F-bb, 30 random DAGs (0/1 constants as gate operands and in assigns, buffers as `assign a = b`, unconnected/omitted pins, names ending in input/output) x 6 layouts (blanks, tabs, newlines, zero or many blanks at every token boundary except between `)` and `;`, statement order permuted) + the library writer's own output + bundled c17, c17_gates, s27, c432",
        "thorough": "300 random DAGs, 16 layouts, + c499, c880, c1355",
    },
    "outside": ["netlists outside the documented restrictions (comments in the module body, expressions, several instances per statement, escaped identifiers, 1'bx, undriven outputs)", "the text space is a generated corpus, not symbolic"],
    "assumptions": ["sem.py gate table", "the full parser is the reference (itself checked by C02)", "z3 sound"],
}

IONAMES = {"i0": "d_input", "i1": "sel_output", "g": "reg_output", "h": "pre_input", "a": "a_input", "o": "q_output"}
ODDNAMES = {"i0": "_en", "i1": "b0", "i2": "d1", "g": "_y1", "h": "h1", "a": "_a", "b": "d0", "s": "b1", "o": "_o", "n": "h0", "c": "_ab"}


def all_cases(ctx):
    base = F.f_unit(4) + F.f_shape() + F.f_bb() + F.f_rand(ctx.seed, 30 if ctx.quick else 300) + F.f_rand_bb(ctx.seed, 12 if ctx.quick else 100)
    base += F.f_wide((17, 33) if ctx.quick else (17, 18, 20, 32, 33, 40))
    cs = [(("sub",) + cid, ("spec", s)) for cid, s in base]
    cs += [(("sub", "ioname") + cid, ("spec", rename(s, lambda n: IONAMES.get(n, n)))) for cid, s in F.f_unit(3, pairs=False) + F.f_shape()[:6] + [c for c in F.f_unit(3) if c[0][0] == "pair"][:8]]
    BUFBOX = ["BUF", ["A"], ["Y"]]
    ANDBOX = ["And", ["A", "B"], ["Y"]]
    I = lambda *ns: [(n, "input", []) for n in ns]
    upper = mkspec("upper_prim_names", I("a", "b") + [("y0", "buf", []), ("y1", "buf", []), ("o", "nand", ["y0", "y1"], True),
                   ("u0.A", "bb_input", ["a"]), ("u0.Y", "bb_output", []), ("u1.A", "bb_input", ["a"]), ("u1.B", "bb_input", ["b"]), ("u1.Y", "bb_output", [])],
                   edges=[("u0.Y", "y0"), ("u1.Y", "y1")], bbs={"u0": BUFBOX, "u1": ANDBOX})
    cs.append((("sub", "upper_prim_names"), ("spec", upper)))
    ties = {"a": "tie0", "b": "tie1", "i0": "tie0", "i1": "tie1", "s": "tie_0"}
    cs += [(("sub", "tienames") + cid, ("spec", rename(s, lambda n: ties.get(n, n)))) for cid, s in F.f_shape() + F.f_bb() + [c for c in F.f_rand(ctx.seed + 3, 12, consts=True)]]
    # the constant-node names AND the names the parser would pick next are all taken by nets of the module
    ties2 = {"a": "tie0", "b": "tie0_", "i0": "tie1", "i1": "tie1_", "s": "tie0__", "c": "tie1__"}
    cs += [(("sub", "tienames2") + cid, ("spec", rename(s, lambda n: ties2.get(n, n)))) for cid, s in F.f_shape() + [c for c in F.f_rand(ctx.seed + 3, 12, consts=True)]]
    cs += [(("sub", "oddnames") + cid, ("spec", rename(s, lambda n: ODDNAMES.get(n, n)))) for cid, s in F.f_unit(3, pairs=False) + F.f_shape()[:8] + [c for c in F.f_unit(3) if c[0][0] == "pair"][:8]]
    cs += [(("writer",) + cid, ("writer", s)) for cid, s in base[::3]]
    cs += [(("lib", n), ("lib", n)) for n in (["c17", "c17_gates", "s27", "c432"] + ([] if ctx.quick else ["c499", "c880", "c1355"]))]
    return cs


def render(spec, layout, rng):
    """restricted-subset netlist for a spec; whitespace chosen per layout at every token boundary"""
    A = Net.from_spec(spec)
    style = layout % 6

    def w(mand=False):
        if style == 0:
            return " "
        if style == 1:
            return " " if mand else ""
        if style == 2:
            return rng.choice([" ", "  ", "\t", "\n  ", " \n"]) if (mand or rng.random() < 0.7) else ""
        if style == 3:
            return "\n" if mand else rng.choice(["", " "])
        if style == 4:
            return rng.choice(["\t", "\t\t", " \t "])
        return rng.choice([" ", "   "]) if (mand or rng.random() < 0.5) else ""

    def wd():
        # blanks between the dot and the pin name (legal Verilog; both parsers allow for it), only in the free-form styles
        return w() if style in (2, 4) else ""

    def lst(items):
        return (w() + "," + w()).join(items)

    consts = {n: A.types[n] for n in A.types if A.types[n] in ("0", "1")}
    inline = layout % 2 == 0
    must_keep = {k for k in consts if k in A.outs or (layout % 4 >= 2 and any(A.types[s] == "bb_input" for s in A.succs[k]))}
    ins = sorted(A.inputs())
    outs = sorted(A.outputs())
    wires, body = [], []
    gi = [0]

    def opnd(u):
        if u in consts and inline and u not in must_keep:
            return "1'b" + consts[u]
        return u

    for n in A.topo():
        t = A.types[n]
        if t in consts.values() and n in consts:
            if not inline or n in must_keep:
                wires.append(n)
                body.append(f"assign{w(True)}{n}{w()}={w()}1'{'h' if layout % 3 == 1 else 'b'}{t}{w()};")
            continue
        if t in ("input", "bb_input", "bb_output"):
            continue
        wires.append(n)
        fi = A.preds[n]
        if not fi:
            continue
        if t == "buf" and A.types[fi[0]] == "bb_output":
            continue  # driven by a blackbox output pin: emitted with the instance
        if t == "buf" and rng.random() < 0.5:
            src = fi[0]
            rhs = ("1'h" if layout % 3 == 2 else "1'b") + consts[src] if (src in consts and inline and src not in must_keep) else src
            body.append(f"assign{w(True)}{n}{w()}={w()}{rhs}{w()};")
            continue
        gi[0] += 1
        body.append(f"{t}{w(True)}g{gi[0]}{w()}({w()}{lst([n] + [opnd(u) for u in fi])}{w()});")
    for inst, (bbn, pins_in, pins_out) in A.bbs.items():
        pins = []
        for p in pins_in:
            d = A.preds[f"{inst}.{p}"]
            if d:
                pins.append(f".{wd()}{p}{w()}({w()}{opnd(d[0])}{w()})")
            elif rng.random() < 0.5:
                pins.append(f".{wd()}{p}{w()}({w()})")
        for p in pins_out:
            d = A.succs[f"{inst}.{p}"]
            if d:
                pins.append(f".{wd()}{p}{w()}({w()}{d[0]}{w()})")
            elif rng.random() < 0.5:
                pins.append(f".{wd()}{p}{w()}({w()})")
        rng.shuffle(pins)
        body.append(f"{bbn}{w(True)}{inst}{w()}({w()}{lst(pins)}{w()});")
    if layout % 3 != 0:
        rng.shuffle(body)
    wires = [x for x in wires if x not in outs and x not in ins]
    decl = [f"input{w(True)}{lst(ins)}{w()};", f"output{w(True)}{lst(outs)}{w()};"]
    if wires:
        decl.append(f"wire{w(True)}{lst(wires)}{w()};")
    hdr = f"module{w(True)}{spec['name']}{w()}({w()}{lst(ins + [o for o in outs if o not in ins])}{w()});"
    sep = "\n" if style in (0, 1, 5) else rng.choice(["\n", "\n\n", " ", "\t"])
    return hdr + sep + sep.join(decl + body) + sep + "endmodule\n"


def canon(net):
    """rename constant nodes to canonical names, return spec for graph identity comparison"""
    m = {}
    for n, t in net.types.items():
        if t in ("0", "1"):
            m[n] = f"CONST{t}"
    r = rename(net.spec(), lambda n: m.get(n, n))
    r["nodes"] = sorted(map(list, {tuple(x) for x in r["nodes"]}))
    r["edges"] = sorted(map(list, {tuple(x) for x in r["edges"]}))
    return r


def restricted_body_ok(text):
    body = text[text.index(");") + 2:]
    return "//" not in body and "/*" not in body and "1'bx" not in body and "\\" not in body


def run(ctx):
    import circuitgraph as cg
    from circuitgraph import io as cgio
    from circuitgraph.parsing import fast_verilog as fv

    ctx.functions(fv.fast_parse_verilog_netlist, cgio.verilog_to_circuit)
    flops = [cg.BlackBox("ff", ["CK", "D"], ["Q"])] + cgio.genus_flops + cgio.dc_flops
    for cid, p in ctx.cases(all_cases(ctx)):
        texts = []
        if p[0] == "spec":
            spec = p[1]
            A = Net.from_spec(spec)
            if wellformed(A, undriven=False) or not A.is_acyclic() or A.has_x() or any(n.startswith("\\") for n in A.types):
                ctx.rejected("member outside the restricted subset")
                continue
            und = [o for o in A.outputs() if A.types[o] not in ("input",) and not A.preds[o] and A.types[o] not in ("0", "1")]
            if und:
                ctx.rejected("undriven output")
                continue
            bbl = [cg.BlackBox(v[0], v[1], v[2]) for v in {k: v for k, v in ((vv[0], vv) for vv in A.bbs.values())}.values()]
            for layout in (range(6) if ctx.quick else range(16)):
                texts.append((layout, render(spec, layout, random.Random(f"c14-{cid}-{layout}")), spec["name"], bbl))
        elif p[0] == "writer":
            spec = p[1]
            A = Net.from_spec(spec)
            if wellformed(A, undriven=False) or A.has_x() or any(n.startswith("\\") for n in A.types):
                ctx.rejected("member outside the restricted subset")
                continue
            if any(A.types[o] not in ("input", "0", "1") and not A.preds[o] for o in A.outputs()):
                ctx.rejected("undriven output")
                continue
            from cgv.net import build
            bbl = [cg.BlackBox(v[0], v[1], v[2]) for v in {vv[0]: vv for vv in A.bbs.values()}.values()]
            t, e = call(cgio.circuit_to_verilog, build(spec))
            if e is not None:
                ctx.rejected("writer raised (C03's concern)")
                continue
            texts.append(("writer", t, spec["name"], bbl))
        else:
            import os
            path = os.path.join(os.path.dirname(cg.__file__), "netlists", p[1] + ".v")
            t = open(path).read()
            if not restricted_body_ok(t[t.index("module"):]):
                ctx.rejected("bundled netlist outside the restrictions")
                continue
            texts.append(("lib", t, p[1], flops))
        for layout, text, name, bbl in texts:
            det = {"case": cid, "layout": layout, "text": text[:2000]}
            if layout in (0, "writer"):
                ctx.sample({"case": cid, "text": text[:1200]})
            full, e1 = call(cgio.verilog_to_circuit, text, name, False, bbl)
            if e1 is not None:
                ctx.harness_error(f"full parser rejected a restricted-subset netlist: {type(e1).__name__}: {str(e1)[:200]}", det)
                continue
            fast, e2 = call(cgio.verilog_to_circuit, text, name, False, bbl, False, False, True)
            if e2 is not None:
                ctx.side("fast-raises", False, classify(text, f"raises:{type(e2).__name__}"), f"fast parser raised {type(e2).__name__}: {str(e2)[:160]} where the full parser succeeds", det)
                continue
            Fu, Fa = Net.of(full), Net.of(fast)
            ctx.side("fast-name", fast.name == full.name, classify(text, "name"), f"name {fast.name!r} != {full.name!r}", det)
            ctx.side("fast-io", Fa.inputs() == Fu.inputs() and Fa.outputs() == Fu.outputs(), classify(text, "io"), f"inputs/outputs differ: {sorted(Fa.inputs() ^ Fu.inputs())[:4]} / {sorted(Fa.outputs() ^ Fu.outputs())[:4]}", det)
            ctx.side("fast-registry", Fa.bbs == Fu.bbs, classify(text, "registry"), f"blackbox registry differs: {sorted(Fa.bbs)} vs {sorted(Fu.bbs)}", det)
            same = canon(Fa) == canon(Fu)
            ctx.side("fast-graph-identical", same, classify(text, "graph"), "graphs differ beyond the names of the constant nodes", dict(det, fast=canon(Fa) if len(Fa.types) < 30 else None, full=canon(Fu) if len(Fu.types) < 30 else None))
            obs = sorted(Fu.outputs()) + sorted(n for n, t in Fu.types.items() if t == "bb_input")
            if any(o not in Fa.types for o in obs) or not Fa.is_acyclic() or not Fu.is_acyclic():
                ctx.side("fast-shape", False, classify(text, "shape"), "fast-parsed circuit lacks an observed node or is cyclic", det)
                continue
            prove_equal(ctx, "fast-vs-full", Fu, Fa, [(o, o) for o in obs], sig=lambda bad, text=text: classify(text, "function"), what="fast and full parser disagree on a function", detail=det)
            ctx.lint_clean(fast, "fast_parse", undriven=False)


def classify(text, what):
    # known-finding predicates
    if re.search(r"[A-Za-z0-9_](input|output)\s", text):
        return "fast-parser:identifier-ending-in-input-output"
    if re.search(r"\)\s*,\.", text) or re.search(r"\),\s*\.", text) and re.search(r"\),\.", text):
        return "fast-parser:pins-without-blank"
    return "fast-parser:" + what
