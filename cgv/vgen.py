"""Generator of structural-Verilog programs from an AST whose meaning is known without parsing.

AST expression forms: ("id", name) ("c", "0"|"1"|"x") ("~", e) ("!", e) ("&"|"|"|"^"|"~^"|"^~", l, r) ("?", c, a, b)
Program: dict(name, inputs, outputs, wires, stmts, bbs) with stmts:
  ("prim", type, [(inst, out, [operand exprs])...])   ("assign", [(lhs, expr)...])   ("box", bbname, inst, {pin: expr|None})
compile_ref() turns a program into a reference spec (harness-side, independent of the parser).
"""
PREC = {"?": 0, "|": 1, "^": 2, "~^": 2, "^~": 2, "&": 3, "~": 4, "!": 4, "id": 5, "c": 5}
CONST_TXT = {"0": ["1'b0", "1'h0"], "1": ["1'b1", "1'h1"], "x": ["1'bx", "1'hx"]}


def ident(n):
    return n + " " if n.startswith("\\") else n


def render_expr(e, full=False, rng=None, level=0, sp=" "):
    """level: minimal precedence the context accepts without parentheses"""
    k = e[0]
    if k == "id":
        return ident(e[1])
    if k == "c":
        opts = CONST_TXT[e[1]]
        return opts[rng.randrange(2)] if rng else opts[0]
    if k == "?":
        # only ever generated at top level (the grammar has no parenthesised / nested ternary)
        return f"{render_expr(e[1], full, rng, 1, sp)}{sp}?{sp}{render_expr(e[2], full, rng, 1, sp)}{sp}:{sp}{render_expr(e[3], full, rng, 1, sp)}"
    if k in ("~", "!"):
        out = k + render_expr(e[1], full, rng, 5, sp)
    else:
        p = PREC[k]
        out = f"{render_expr(e[1], full, rng, p, sp)}{sp}{k}{sp}{render_expr(e[2], full, rng, p + 1, sp)}"
    if PREC[k] < level or (full and level > 0):
        out = "(" + out + ")"
    return out


def gen_expr(rng, leaves, depth, consts=("0", "1"), top=True, p_const=0.12):
    if top and depth >= 1 and rng.random() < 0.15:
        return ("?", gen_expr(rng, leaves, depth - 1, consts, False), gen_expr(rng, leaves, depth - 1, consts, False), gen_expr(rng, leaves, depth - 1, consts, False))
    if depth == 0 or rng.random() < 0.2:
        if consts and rng.random() < p_const:
            return ("c", rng.choice(list(consts)))
        return ("id", rng.choice(leaves))
    op = rng.choice(["~", "!", "&", "&", "|", "|", "^", "^", "~^", "^~"])
    if op in ("~", "!"):
        return (op, gen_expr(rng, leaves, depth - 1, consts, False))
    return (op, gen_expr(rng, leaves, depth - 1, consts, False), gen_expr(rng, leaves, depth - 1, consts, False))


def all_exprs(leaves, depth):
    """exhaustive: all expressions of depth <= depth over the leaves (no constants, no ternary)"""
    if depth == 0:
        return [("id", l) for l in leaves]
    sub = all_exprs(leaves, depth - 1)
    out = list(sub)
    for a in sub:
        out.append(("~", a))
        for b in sub:
            for op in ("&", "|", "^", "~^"):
                out.append((op, a, b))
    return out


def expr_ids(e, acc=None):
    acc = set() if acc is None else acc
    if e[0] == "id":
        acc.add(e[1])
    elif e[0] != "c":
        for x in e[1:]:
            expr_ids(x, acc)
    return acc


def has_repeated_parity_operand(e):
    """an operator ^ ~^ whose two operands are the same net/constant (syntactically a leaf)"""
    if e[0] in ("id", "c"):
        return False
    if e[0] in ("^", "~^", "^~") and e[1] == e[2] and e[1][0] in ("id", "c"):
        return True
    return any(has_repeated_parity_operand(x) for x in e[1:])


def has_repeated_leaf_operand(e):
    if e[0] in ("id", "c"):
        return False
    if e[0] in ("^", "~^", "^~", "&", "|") and e[1] == e[2] and e[1][0] in ("id", "c"):
        return True
    if e[0] == "?" and (e[1] == e[2] or e[1] == e[3] or e[2] == e[3]):
        return True
    return any(has_repeated_leaf_operand(x) for x in e[1:])


# ----------------------------------------------------------------------------- reference compiler
class RefBuilder:
    def __init__(self, name):
        self.name, self.nodes, self.edges, self.bbs, self.k = name, {}, [], {}, 0

    def fresh(self):
        self.k += 1
        return f"ref!{self.k}"

    def node(self, n, t, fanin=(), out=False):
        self.nodes[n] = [t, out or self.nodes.get(n, [None, False])[1]]
        for u in fanin:
            d = u
            if any(e == [u, n] for e in self.edges):  # repeated operand: route through a private buffer
                d = self.fresh()
                self.nodes[d] = ["buf", False]
                self.edges.append([u, d])
            self.edges.append([d, n])
        return n

    def const(self, v):
        n = f"ref!const{v}"
        if n not in self.nodes:
            self.nodes[n] = [v, False]
        return n

    def expr(self, e, into=None):
        """materialise expression; returns node name (into: name to give the top node)"""
        k = e[0]
        if k == "id":
            if into is None:
                return e[1]
            return self.node(into, "buf", [e[1]])
        if k == "c":
            c = self.const(e[1])
            if into is None:
                return c
            return self.node(into, "buf", [c])
        n = into or self.fresh()
        if k in ("~", "!"):
            return self.node(n, "not", [self.expr(e[1])])
        if k == "?":
            s, a, b = self.expr(e[1]), self.expr(e[2]), self.expr(e[3])
            ns = self.node(self.fresh(), "not", [s])
            a1 = self.node(self.fresh(), "and", [s, a])
            a0 = self.node(self.fresh(), "and", [ns, b])
            return self.node(n, "or", [a0, a1])
        t = {"&": "and", "|": "or", "^": "xor", "~^": "xnor", "^~": "xnor"}[k]
        return self.node(n, t, [self.expr(e[1]), self.expr(e[2])])

    def spec(self):
        return {"name": self.name, "nodes": [[n, t, o] for n, (t, o) in self.nodes.items()], "edges": self.edges, "bbs": self.bbs}


def compile_ref(prog):
    b = RefBuilder(prog["name"])
    for i in prog["inputs"]:
        b.node(i, "input")
    for st in prog["stmts"]:
        if st[0] == "prim":
            for inst, out, ops in st[2]:
                b.node(out, st[1], [b.expr(o) for o in ops])
        elif st[0] == "assign":
            for lhs, e in st[1]:
                b.expr(e, into=lhs)
        else:
            _, bbname, inst, conns = st
            bb = prog["bbs"][bbname]
            b.bbs[inst] = [bbname, list(bb[0]), list(bb[1])]
            for p in bb[0]:
                e = conns.get(p)
                b.node(f"{inst}.{p}", "bb_input", [b.expr(e)] if e is not None else [])
            for p in bb[1]:
                b.node(f"{inst}.{p}", "bb_output")
                e = conns.get(p)
                if e is not None:
                    b.node(e[1], "buf", [f"{inst}.{p}"])
    for o in prog["outputs"]:
        if o in b.nodes:
            b.nodes[o][1] = True
    return b.spec()


# --------------------------------------------------------------------------------- rendering
def render_program(prog, layout, rng):
    full = layout % 2 == 1
    sp = [" ", "", "  ", "\t"][(layout // 2) % 4]
    nl = ["\n", "\n", "\n\n", " "][(layout // 8) % 4] if layout >= 8 else "\n"
    shuffle = (layout // 2) % 3 == 2
    ports = list(prog["inputs"]) + [o for o in prog["outputs"] if o not in prog["inputs"]]
    if layout % 3 == 1:
        rng.shuffle(ports)
    lines = []
    decl = []
    if layout % 4 == 3:
        decl += [f"input {ident(i)};" for i in prog["inputs"]]
    else:
        decl.append("input " + f",{sp}".join(ident(i) for i in prog["inputs"]) + ";")
    decl.append("output " + f",{sp}".join(ident(o) for o in prog["outputs"]) + ";")
    if prog["wires"]:
        decl.append("wire " + f",{sp}".join(ident(w) for w in prog["wires"]) + ";")
    body = []
    for si, st in enumerate(prog["stmts"]):
        if st[0] == "prim":
            insts = [f"{inst}{sp}({sp}{ident(out)}{sp},{sp}" + f"{sp},{sp}".join(render_expr(o, full, rng, 0, " " if sp == "" else sp) for o in ops) + f"{sp})" for inst, out, ops in st[2]]
            body.append(f"{st[1]} " + f",{sp}".join(insts) + ";")
        elif st[0] == "assign":
            body.append("assign " + f",{sp}".join(f"{ident(l)}{sp}={sp}{render_expr(e, full, rng, 0, ' ' if sp == '' else sp)}" for l, e in st[1]) + ";")
        else:
            _, bbname, inst, conns = st
            pins = []
            for p, e in conns.items():
                pins.append(f".{p}({render_expr(e, full, rng, 0, ' ') if e is not None else ''})")
            if si in prog.get("merge", ()) and body and body[-1].startswith(bbname + " "):
                body[-1] = body[-1][:-1] + f"{sp},{sp if sp else ' '}{inst}{sp}({sp}" + f",{sp}".join(pins) + f"{sp});"
            else:
                body.append(f"{bbname} {inst}{sp}({sp}" + f",{sp}".join(pins) + f"{sp});")
    if shuffle:
        rng.shuffle(body)
        if layout % 5 == 0:
            allst = decl + body
            rng.shuffle(allst)
            decl, body = [], allst
    comments = layout % 4 in (0, 2) and nl != " "
    if comments and layout % 8 == 2:
        # comments inside and after statements (never containing `);` or `endmodule`)
        body = [b[:-1] + " /* c */ ;" + " // trailing comment , with ( tokens = inside" for b in body]
        decl = [d + " /* after ; */" for d in decl]
    lines.append(f"module {prog['name']}{sp}({sp}" + f"{sp},{sp}".join(ident(p) for p in ports) + f"{sp});")
    if comments:
        # a line comment may contain `/*` (it opens nothing) and a block comment may contain `//` (it does not hide the `*/`)
        lines.append("// generated netlist: declarations /* this is still a line comment" if layout % 16 >= 8 else "// generated netlist: declarations")
    lines += ["  " + d for d in decl]
    if comments:
        lines.append("/* body\n   follows // not a line comment */" if layout % 16 >= 8 or layout % 8 == 4 else "/* body\n   follows */")
    lines += ["  " + b for b in body]
    lines.append("endmodule")
    return nl.join(lines) + "\n"


# --------------------------------------------------------------------------------- generation
POOLS = {
    "plain": dict(ins=["a", "b", "c", "d"], nets=["w%d", "n%d"], outs=["y%d"]),
    "synthetic": dict(ins=["a", "b", "not_a", "and_a_b"], nets=["xor_a_b", "or_a_b", "not_b", "and_b_a", "xnor_a_b", "not_not_a", "and_a_b_0", "mux_o_a_b_not_a", "or_not_a_b", "g_%d"], outs=["y%d", "not_and_a_b"]),
    "escaped": dict(ins=["\\a[0]", "\\b+c", "\\d,en", "c"], nets=["\\w[%d]", "n%d", "\\n%d;x", "\\p(%d)"], outs=["\\y[%d]", "z%d"]),
    "ties": dict(ins=["a", "tie_0", "tie1", "tie_1"], nets=["w%d", "tie_x", "tie0", "tie_0_0"], outs=["y%d"]),
}
BOXES = {"ff": (["clk", "d"], ["q"]), "box": (["p", "r"], ["y", "z"])}


def gen_program(rng, pool="plain", nstmts=6, depth=3, consts=("0", "1"), boxes=True, name="top", dup_ok=True):
    P = POOLS[pool]
    n_in = rng.randint(1, min(4, len(P["ins"])))
    inputs = P["ins"][:n_in]
    avail = list(inputs)
    used_names = set(inputs)
    cnt = [0]

    def newnet(kind):
        for _ in range(200):
            cnt[0] += 1
            pat = rng.choice(P[kind])
            n = pat % cnt[0] if "%d" in pat else pat
            if n not in used_names:
                used_names.add(n)
                return n
        n = f"zz{cnt[0]}"
        used_names.add(n)
        return n

    stmts, wires, bb_used = [], [], {}
    merge = []  # indices of box statements that are written into the previous statement
    instn = [0]

    def inst():
        instn[0] += 1
        return f"U{instn[0]}"

    def operand(d):
        r = rng.random()
        if r < 0.75 or d == 0:
            e = ("id", rng.choice(avail))
        elif r < 0.85 and consts:
            e = ("c", rng.choice(list(consts)))
        else:
            e = gen_expr(rng, avail, min(d, 2), consts, top=rng.random() < 0.3)
        return e

    for _ in range(nstmts):
        r = rng.random()
        if r < 0.4:
            t = rng.choice(["and", "nand", "or", "nor", "xor", "xnor", "buf", "not"])
            group = []
            defined = []
            for _ in range(rng.choice([1, 1, 2, 3])):
                out = newnet("nets")
                k = 1 if t in ("buf", "not") else rng.choice([1, 2, 2, 3, 4])
                ops = [operand(depth - 1) for _ in range(k)]
                if not dup_ok:
                    seen, o2 = set(), []
                    for o in ops:
                        if repr(o) not in seen:
                            seen.add(repr(o))
                            o2.append(o)
                    ops = o2
                group.append((inst(), out, ops))
                defined.append(out)
            stmts.append(("prim", t, group))
            avail += defined
            wires += defined
        elif r < 0.85 or not boxes:
            group = []
            defined = []
            for _ in range(rng.choice([1, 1, 1, 2])):
                out = newnet("nets")
                group.append((out, gen_expr(rng, avail, depth, consts)))
                defined.append(out)
            stmts.append(("assign", group))
            avail += defined
            wires += defined
        else:
            bbname = rng.choice(sorted(BOXES))
            ins_, outs_ = BOXES[bbname]
            # one instance, or two instances of the same box in ONE statement (`ff U1(...), U2(...);`), each with its own connections
            for j in range(2 if rng.random() < 0.35 else 1):
                conns = {}
                for p in ins_:
                    q = rng.random()
                    if q < 0.7:
                        conns[p] = ("id", rng.choice(avail))
                    elif q < 0.8:
                        conns[p] = gen_expr(rng, avail, 1, consts, top=False)
                    elif q < 0.9:
                        conns[p] = None
                defined = []
                for p in outs_:
                    q = rng.random()
                    if q < 0.75:
                        o = newnet("nets")
                        conns[p] = ("id", o)
                        defined.append(o)
                    elif q < 0.85:
                        conns[p] = None
                items = list(conns.items())
                rng.shuffle(items)
                if j == 1:
                    merge.append(len(stmts))
                stmts.append(("box", bbname, inst(), dict(items)))
                bb_used[bbname] = BOXES[bbname]
                avail += defined
                wires += defined
    used = set()
    for st in stmts:
        if st[0] == "prim":
            for _, _, ops in st[2]:
                for o in ops:
                    expr_ids(o, used)
        elif st[0] == "assign":
            for _, e in st[1]:
                expr_ids(e, used)
        else:
            bb = BOXES[st[1]]
            for p, e in st[3].items():
                if e is not None and p in bb[0]:
                    expr_ids(e, used)
    outs = [w for w in wires if w not in used]
    extra = [w for w in wires if w in used and rng.random() < 0.15]
    if rng.random() < 0.15:
        extra.append(rng.choice(inputs))
    outputs = outs + extra
    if not outputs:
        outputs = [wires[-1]] if wires else [inputs[0]]
    # rename outputs that the pool wants to look special: keep names (they are declared nets)
    wires = [w for w in wires if w not in outputs]
    return {"name": name, "inputs": inputs, "outputs": outputs, "wires": wires, "stmts": stmts, "bbs": bb_used, "merge": merge}
