"""E2 driver: explore all paths of one real API call on a symbolic pre-state, prove post-conditions
per path, replay counterexamples on real networkx, and validate the stand-in by conformance replays."""
import z3

from cgv import symgraph as sg
from cgv.lazyfork import explore

_patched = False


def patch_nx():
    """replace the `nx` name in the modules under test by the dispatching proxy (process-wide, idempotent)"""
    global _patched
    if _patched:
        return
    import circuitgraph.circuit as cc

    cc.nx = sg.NxProxy()
    _patched = True


class Acc:
    """state accessors returning z3 terms"""

    def __init__(self, present, typ, out, edge):
        self.present, self.typ, self.out, self.edge = present, typ, out, edge


def acc_pre(vars_, OM=None):
    P, T, O, E = vars_
    F = z3.BoolVal(False)
    out = (lambda n: O.get(n, F)) if OM is None else (lambda n: z3.And(O[n], z3.Not(OM[n])) if n in O else F)
    return Acc(lambda n: P.get(n, F), lambda n: T[n] if n in T else z3.IntVal(sg.MISSING), out, lambda u, v: E.get((u, v), F))


def acc_sym(g):
    return Acc(g.present, g.type_term, g.output_term, g.edge)


def acc_real(state):
    nodes, edges = state

    def typ(n):
        if n not in nodes or nodes[n][0] is None:
            return z3.IntVal(sg.MISSING)
        if not isinstance(nodes[n][0], str):
            return z3.IntVal(sg.NONSTR)
        return z3.IntVal(sg.TS.get(nodes[n][0], sg.UNSUPPORTED))

    a = Acc(lambda n: z3.BoolVal(n in nodes), typ, lambda n: z3.BoolVal(n in nodes and bool(nodes[n][1])), lambda u, v: z3.BoolVal((u, v) in edges))
    a.concrete = True
    return a


class Outcome:
    def __init__(self, kind, exc=None, ret=None):
        self.kind, self.exc, self.ret = kind, exc, ret

    def key(self):
        r = self.ret
        if isinstance(r, (list, tuple)):
            r = ("list", tuple(sorted(map(str, r))))
        elif isinstance(r, (set, frozenset)):
            r = ("set", tuple(sorted(map(str, r))))
        elif isinstance(r, dict):
            r = ("dict", tuple(sorted((str(k), str(v)) for k, v in r.items())))
        elif r is not None and not isinstance(r, (str, int, bool)):
            r = str(r)
        return (self.kind, self.exc, r)


def run_op(op, c):
    try:
        r = op(c)
        if r is not None and hasattr(r, "__next__"):
            r = list(r)
        return Outcome("ok", ret=r)
    except Exception as e:  # noqa: BLE001  (Abort is a BaseException and passes through)
        return Outcome("raise", exc=type(e).__name__, ret=str(e)[:120])


def spec_of(state):
    nodes, edges = state
    return {"nodes": {n: list(v) for n, v in sorted(nodes.items())}, "edges": sorted(map(list, edges))}


def run(ctx, tag, U, vars_, pre, bbs, op, posts, split=(0, 0), conf_every=1, detail=None, normalize_ret=None, compare_ret=True, reachable=None, conf_extra=None, OM=None, nonstr=False):
    """bbs: dict inst -> (ins, outs) (concrete registry);  op(c) -> value;  posts(preA, postA, outcome, names) -> [(name, formula, sig, what)]"""
    import circuitgraph as cg

    patch_nx()
    stats = {"viol": 0}

    def mkbbs():
        # registry value: (inputs, outputs) or (inputs, outputs, name of the box type)
        return {k: cg.BlackBox(v[2] if len(v) > 2 else "bbtype_" + k, list(v[0]), list(v[1])) for k, v in bbs.items()}

    preA = acc_pre(vars_, OM)

    mode = {"pin": False}

    class RestartPinned(BaseException):
        pass

    def body(o, owns):
        g = sg.SymDiGraph(o, U, vars_)
        g.pin_types = mode["pin"]
        g.OM = OM
        g.allow_nonstr = nonstr
        c = cg.Circuit(name="sym", graph=g, blackboxes=mkbbs())
        out = run_op(op, c)
        if out.kind == "raise" and out.exc in ("TypeError", "AttributeError", "NotImplementedError") and owns():
            # Does the real code raise this too?  If not, the code under test uses the symbolic graph in a way the stand-in does
            # not support (e.g. a str-only operation on a node type).  Fall back, for this path only, to RUNNING THE REAL CODE on
            # randomly completed pre-states of the path condition and checking the post-conditions concretely.  This is sampling,
            # not a solver verdict: a violation found this way is a real counterexample; finding none leaves the path undecided.
            m0 = o.model()
            r0 = sg.materialize(vars_, m0, mkbbs(), OM=OM)
            if run_op(op, r0).key()[:2] != out.key()[:2]:
                import random as _random
                rng = _random.Random(f"{tag}-{ctx.r['counters'].get('paths_sampled_concretely', 0)}")
                P_, T_, O_, E_ = vars_
                bvars = list(P_.values()) + list(O_.values()) + list(E_.values()) + (list(OM.values()) if OM else [])
                ivars = [(t_, 0, sg.NONSTR if nonstr else sg.MISSING) for t_ in T_.values()]
                ctx.count("paths_sampled_concretely")
                found = False
                for _i in range(48):
                    mm = o.random_model(bvars, ivars, rng)
                    if mm is None:
                        break
                    real = sg.materialize(vars_, mm, mkbbs(), OM=OM)
                    before = sg.real_state(real)
                    rout = run_op(op, real)
                    after = sg.real_state(real)
                    rnames = list(U) + [n for n in after[0] if n not in U]
                    for n2, f2, s2, w2 in posts(acc_real(before), acc_real(after), rout, rnames, real):
                        f2s = z3.simplify(f2)
                        bad = z3.is_false(f2s)
                        if not bad and not z3.is_true(f2s):
                            q = z3.Solver()
                            q.add(z3.Not(f2s))
                            bad = q.check() == z3.sat
                        if bad and (reachable is None or reachable(before)):
                            ctx.violation(s2, f"{tag}: {w2}", dict(detail or {}, pre_state=spec_of(before), post_state=spec_of(after), outcome=rout.key(), found_by="concrete sampling fall-back (stand-in could not run this path)"), tag=f"{tag}:{n2}", concrete=True)
                            found = True
                            break
                    if found:
                        break
                if not found:
                    ctx.harness_error(f"E2: the stand-in cannot execute a path of {tag} ({out.exc}: {out.ret}) and concrete sampling found no violation: path undecided", detail)
                return
        if not owns():
            return
        ctx.count("paths")
        ctx.count(f"outcome:{out.kind}:{out.exc or ''}")
        if stats.get("seen", 0) < 300 and len(o.stack) > stats.get("best", 0):
            # keep the longest of the first paths as the sample written to the evidence
            stats["seen"] = stats.get("seen", 0) + 1
            try:
                m0 = o.model()
                stats["best"] = len(o.stack)
                stats["sample"] = {"call": tag, "detail": detail, "decisions_on_this_path": [f"{t} = {v}" for t, v, _a, _f, _l in o.stack][:16],
                                   "a_pre_state_of_this_path": spec_of(sg.real_state(sg.materialize(vars_, m0, mkbbs(), OM=OM))), "outcome": list(map(str, out.key()))}
            except Exception:  # noqa
                pass
        names = g.names()
        postA = acc_sym(g)
        for name, formula, sig, what in posts(preA, postA, out, names, c):
            ctx.r["obligations"] += 1
            m = o.check_post(z3.Not(formula))
            if m is None:
                ctx.r["unsat"] += 1
                continue
            ctx.r["sat"] += 1
            ctx.r["replays"] += 1
            # replay on real networkx
            real = sg.materialize(vars_, m, mkbbs(), OM=OM)
            before = sg.real_state(real)
            rout = run_op(op, real)
            after = sg.real_state(real)
            rnames = list(U) + [n for n in after[0] if n not in U]
            failed = []
            for n2, f2, s2, w2 in posts(acc_real(before), acc_real(after), rout, rnames, real):
                f2s = z3.simplify(f2)
                if z3.is_false(f2s):
                    failed.append((n2, s2, w2))
                elif not z3.is_true(f2s):
                    # the formula still has free signal variables (all valuations): violated iff its negation is satisfiable
                    q = z3.Solver()
                    q.add(z3.Not(f2s))
                    if q.check() == z3.sat:
                        failed.append((n2, s2, w2))
            d = dict(detail or {}, pre_state=spec_of(before), post_state=spec_of(after), outcome=rout.key(), registry=sorted(bbs), symbolic_outcome=out.key())
            hit = [x for x in failed if x[0] == name]
            if hit and reachable is not None and not reachable(before):
                # a counterexample from a pre-state no API history reaches: the invariant is too weak, not a finding
                ctx.count("unreached_pre_states")
                ctx.harness_error(f"E2 counterexample for {tag}:{name} starts from a pre-state the public API cannot build (strengthen the invariant)", d)
            elif hit:
                stats["viol"] += 1
                ctx.violation(hit[0][1], f"{tag}: {hit[0][2]}", d, tag=f"{tag}:{name}")
            else:
                ctx.harness_error(f"E2 counterexample for {tag}:{name} did not reproduce on real networkx", d)
        # conformance of the stand-in: same call on real networkx from a model of this path
        nconf = ctx.r["counters"].get("paths", 0)
        if conf_every and nconf % conf_every == 0:
            m = o.model()
            real = sg.materialize(vars_, m, mkbbs(), OM=OM)
            rout = run_op(op, real)
            sym_state, real_state = sg.post_state(g, m), sg.real_state(real)
            # the stand-in has one value for "a string that is no supported type" and one for "not a string"; which unsupported value a
            # node carries is not part of the comparison
            unsup = lambda st: ({n: (t if (t is None or (isinstance(t, str) and t in sg.TYPES)) else "<unsupported>", o) for n, (t, o) in st[0].items()}, st[1])
            sym_state, real_state = unsup(sym_state), unsup(real_state)
            a, b = out.key(), rout.key()
            if normalize_ret:
                a, b = normalize_ret(a), normalize_ret(b)
            same = (a[:2] == b[:2]) and (not compare_ret or a[0] == "raise" or a[2] == b[2]) and sym_state == real_state
            if same and conf_extra is not None:
                same = conf_extra(out, rout, m)
            ctx.count("conformance_replays")
            if not same:
                ctx.harness_error(f"E2 stand-in does not conform to real networkx in {tag}", dict(detail or {}, pre_state=spec_of(sg.real_state(sg.materialize(vars_, m, mkbbs(), OM=OM))), symbolic=[a, spec_of(sym_state)], real=[b, spec_of(real_state)]))

    st = explore(pre, body, split_bits=split[0], split_index=split[1])
    if stats.get("sample") and stats.get("best", 0) >= 6 and not any(isinstance(x, dict) and "decisions_on_this_path" in x for x in ctx.r["samples"]):
        ctx.r["samples"].insert(0, stats["sample"])
    ctx.count("decisions", st["decisions"])
    ctx.count("feasibility_checks", st["checks"])
    ctx.count("aborted_paths", st["aborted"])
    ctx.r["solver_s"] += st["solver_s"]
    if not st["exhausted"]:
        ctx.harness_error(f"E2 exploration of {tag} not exhausted")
    return st
