"""Driver: spawns workers over hash seeds x shards, aggregates, applies known findings,
writes evidence, prints VIOLATION / KNOWN-FINDING lines, sets the exit code.

exit 0  every obligation in the stated bound decided and held (known findings aside)
exit 1  replayed violation not listed in known_findings.json
exit 2  harness error / inconclusive run (never a pass)
"""
import argparse
import importlib
import json
import os
import subprocess
import sys
import tempfile
import time
from concurrent.futures import ThreadPoolExecutor

HERE = os.path.dirname(os.path.abspath(__file__))
ROOT = os.path.dirname(HERE)
NCPU = int(os.environ.get("CGV_JOBS", "16"))


def load_known():
    p = os.path.join(ROOT, "known_findings.json")
    if not os.path.exists(p):
        return []
    return json.load(open(p)).get("findings", [])


def spawn(pid, tier, seed, hs, shard, nshards, out, case=None):
    env = dict(os.environ)
    env["PYTHONHASHSEED"] = str(hs)
    env["PYTHONDONTWRITEBYTECODE"] = "1"
    env["PYTHONPATH"] = ROOT + os.pathsep + env.get("PYTHONPATH", "")
    cmd = [sys.executable, "-B", "-m", "cgv.worker", pid, "--tier", tier, "--seed", str(seed),
           "--hashseed", str(hs), "--shard", str(shard), "--nshards", str(nshards), "--out", out]
    if case is not None:
        cmd += ["--case", json.dumps(case)]
    p = subprocess.run(cmd, cwd=ROOT, env=env, capture_output=True, text=True)
    return p


def run_workers(pid, tier, seed, hashseeds, nshards, case=None):
    results, errors = [], []
    with tempfile.TemporaryDirectory(prefix="cgv_") as td:
        jobs = []
        for hs in hashseeds:
            for sh in range(nshards):
                jobs.append((hs, sh, os.path.join(td, f"r_{hs}_{sh}.json")))

        def go(j):
            hs, sh, out = j
            p = spawn(pid, tier, seed, hs, sh, nshards, out, case)
            if p.returncode != 0 or not os.path.exists(out):
                return None, f"worker hs={hs} shard={sh} rc={p.returncode}\n{p.stdout[-2000:]}\n{p.stderr[-4000:]}"
            r = json.load(open(out))
            r["_hs"], r["_shard"] = hs, sh
            r["_stdout"] = p.stdout[-2000:]
            return r, None

        with ThreadPoolExecutor(max_workers=NCPU) as ex:
            for r, e in ex.map(go, jobs):
                if e:
                    errors.append(e)
                else:
                    results.append(r)
    return results, errors


def main():
    ap = argparse.ArgumentParser()
    ap.add_argument("pid")
    ap.add_argument("--tier", default=os.environ.get("VERIF_TIER", "quick"))
    ap.add_argument("--replay", default=None)
    a = ap.parse_args()
    pid, tier = a.pid, a.tier
    if tier not in ("quick", "thorough"):
        tier = "quick"
    seed = int(os.environ.get("VERIF_SEED", "0") or 0)
    sys.path.insert(0, ROOT)
    sys.path.insert(0, os.path.join(HERE, "shim"))
    mod = importlib.import_module(f"cgv.props.{pid}")
    META = mod.META
    t0 = time.time()

    if a.replay:
        v = json.load(open(a.replay))
        results, errors = run_workers(pid, v["tier"], v["seed"], [v["hashseed"]], 1, case=v["case"])
        vs = [x for r in results for x in r["violations"]]
        for x in vs:
            print(f"REPLAYED property={pid} sig={x['sig']} what={x['what']}")
            print(json.dumps(x.get("detail"), indent=1, default=str)[:4000])
        for e in errors:
            print("HARNESS-ERROR", e)
        print("replay:", "violation reproduced" if vs else "no violation on the current tree")
        sys.exit(1 if vs else (2 if errors else 0))

    hashseeds = META["hashseeds"][tier]
    nshards = META.get("shards", {}).get(tier, max(1, NCPU // len(hashseeds)))
    results, errors = run_workers(pid, tier, seed, hashseeds, nshards)

    agg = {k: 0 for k in ("obligations", "unsat", "sat", "unknown", "twins", "twins_sat", "side", "side_failed",
                          "rejected", "replays", "lint_clean_outputs")}
    solver_s, evals = 0.0, 0
    structures, samples, queries, functions, counters, notes = set(), [], [], {}, {}, []
    violations, herr, inconc = [], list(errors), []
    extra = {}
    for r in results:
        for k in agg:
            agg[k] += r[k]
        solver_s += r["solver_s"]
        evals += r["programs"]
        structures.update(r["structures"])
        if r["_hs"] == hashseeds[0]:
            for s in r["samples"]:
                samples.append(s)
            for q in r["queries"]:
                if len(queries) < 1:
                    queries.append(q)
        functions.update(r["functions"])
        for k, v in r["counters"].items():
            counters[k] = counters.get(k, 0) + v
        for n in r["notes"]:
            if n not in notes:
                notes.append(n)
        violations += r["violations"]
        herr += r["harness_errors"]
        inconc += r["inconclusive"]
        for k, v in r.get("extra", {}).items():
            extra[k] = extra.get(k, 0) + v if isinstance(v, (int, float)) else v

    known = [k for k in load_known() if k["property"] == pid]
    known_sigs = {k["signature"]: k for k in known if k.get("status") == "known"}
    new, knownhits = {}, {}
    for v in violations:
        (knownhits if v["sig"] in known_sigs else new).setdefault(v["sig"], []).append(v)

    lines = []
    for sig, vs in sorted(knownhits.items()):
        lines.append(f"KNOWN-FINDING: property={pid} {known_sigs[sig]['what']} [{sig}; {len(vs)} occurrence(s) this run]")
    rdir = os.path.join(ROOT, "out", "replays", pid)
    for i, (sig, vs) in enumerate(sorted(new.items())):
        os.makedirs(rdir, exist_ok=True)
        path = os.path.join(rdir, f"{i:02d}_{abs(hash(sig)) % 10**8:08d}.json")
        v = dict(vs[0])
        v["occurrences"] = len(vs)
        v["replay_cmd"] = f"./check {pid} --replay {path}"
        json.dump(v, open(path, "w"), indent=1, default=str)
        lines.append(f"VIOLATION property={pid} replay={path}")
        lines.append(f"  what: {v['what']}  [sig={sig}; case={v['case']}; hashseed={v['hashseed']}; {len(vs)} occurrence(s)]")

    wall = time.time() - t0
    level = META["level"]
    cov = {
        "engine": META.get("engine"),
        "functions_encoded": functions,
        "bounds": META["bounds"][tier] if isinstance(META.get("bounds"), dict) and tier in META["bounds"] else META.get("bounds"),
        "outside_the_claim": META.get("outside", []),
        "hash_seeds": hashseeds,
        "obligations": agg["obligations"],
        "discharged": agg["unsat"],
        "solver_verdicts": {"unsat": agg["unsat"], "sat": agg["sat"], "unknown": agg["unknown"]},
        "solver_s": round(solver_s, 3),
        "vacuity_twins": {"run": agg["twins"], "sat_as_required": agg["twins_sat"]},
        "concrete_side_assertions": {"run": agg["side"], "failed": agg["side_failed"]},
        "library_outputs_lint_clean": agg["lint_clean_outputs"],
        "rejected_calls": agg["rejected"],
        "counterexamples_replayed": agg["replays"],
        "evaluations": evals,
        "distinct_nontrivial": len(structures),
        "rule": META.get("rule", "one evaluation = one structure (case) under one hash seed; distinct = distinct case ids"),
        "samples": (sorted(samples, key=lambda x: 0 if isinstance(x, dict) and "decisions_on_this_path" in x else 1)[:4]) or [{"note": "no sample recorded"}],
        "sample_query": queries[:1],
        "counters": counters,
        "notes": notes,
        "inconclusive": inconc[:10],
        "known_findings_hit": sorted(knownhits),
        "exhaustive": False,
    }
    cov.update(extra)
    if level == "translation_validation":
        cov["programs"] = len(structures)
        cov["disagreements_checked"] = agg["replays"] + agg["side_failed"]
    if level == "model_checking":
        cov["states"] = max(1, counters.get("paths", len(structures)))
        cov["transitions"] = max(1, counters.get("decisions", agg["obligations"]))
        cov["traces_validated_against_impl"] = counters.get("conformance_replays", 0)
        cov["exhaustive"] = bool(META.get("exhaustive_within_bound")) and not herr and not inconc
    if hasattr(mod, "finish"):
        mod.finish(cov, counters)
    ev = {
        "property_id": pid,
        "tier": tier,
        "seed": seed,
        "level": level,
        "coverage": cov,
        "assumptions": META.get("assumptions", []),
        "wall_s": round(wall, 2),
        "violations": len(new),
    }
    if not os.environ.get("CGV_NO_EVIDENCE"):  # (maintenance tools that run a check against a scratch copy must not overwrite evidence)
        os.makedirs(os.path.join(ROOT, "evidence"), exist_ok=True)
        json.dump(ev, open(os.path.join(ROOT, "evidence", f"{pid}.json"), "w"), indent=1, default=str)

    for l in lines:
        print(l)
    status = 0
    if herr or inconc or agg["unknown"]:
        status = 2
        for e in herr[:5]:
            print("HARNESS-ERROR:", json.dumps(e, default=str)[:3000] if not isinstance(e, str) else e[:3000])
        for e in inconc[:5]:
            print("INCONCLUSIVE:", json.dumps(e, default=str)[:500])
    if agg["obligations"] == 0 and not META.get("allow_zero_obligations"):
        status = 2
        print("HARNESS-ERROR: no obligation was discharged")
    if new:
        status = 1
    print(f"{pid} {tier}: structures={len(structures)} evaluations={evals} obligations={agg['obligations']} "
          f"unsat={agg['unsat']} sat={agg['sat']} unknown={agg['unknown']} twins={agg['twins_sat']}/{agg['twins']} "
          f"side={agg['side']}(-{agg['side_failed']}) rejected={agg['rejected']} solver={solver_s:.1f}s wall={wall:.1f}s "
          f"-> {'OK' if status == 0 else 'VIOLATION' if status == 1 else 'HARNESS-ERROR'}")
    sys.exit(status)


if __name__ == "__main__":
    main()
