"""E2 engine: lazy-fork symbolic execution by decision-vector replay.

The code under check runs as ordinary CPython.  Every observation of a symbolic bit goes
through Oracle.decide(term): follow the recorded decision prefix, otherwise ask z3 which
outcomes are feasible under pre-condition + path condition, take one and remember the
other.  explore() re-runs the program until every feasible decision vector has been taken
(depth-first).  The bound is the symbolic universe; there is no time-out based cut.

Parallel split: with nsplit = 2^d workers, the first d *free* decisions (both outcomes
feasible) are forced to the bits of the worker index; a path that ends after fewer than d
free decisions is owned by the worker whose remaining index bits are zero.
"""
import time

import z3


class Abort(BaseException):
    """path infeasible / must be abandoned (BaseException: must not be caught by code under test)"""


class Oracle:
    def __init__(self, pre, split_bits=0, split_index=0):
        self.s = z3.Solver()
        self.s.add(*pre)
        self.stack = []  # [term, value, alt_pending, free]
        self.pos = 0
        self.nchecks = 0
        self.ndecisions = 0
        self.split_bits, self.split_index = split_bits, split_index
        self.cache = {}
        self.free_seen = 0
        self.solver_s = 0.0

    def start(self):
        self.pos = 0
        self.cache = {}
        self.free_seen = 0
        self.s.push()

    def _check(self, *a):
        t0 = time.time()
        r = self.s.check(*a)
        self.solver_s += time.time() - t0
        self.nchecks += 1
        if r == z3.unknown:
            raise RuntimeError("E2: solver returned unknown on a feasibility check")
        return r == z3.sat

    def decide(self, term):
        if isinstance(term, bool):
            return term
        k = term.get_id()
        hit = self.cache.get(k)
        if hit is not None:
            return hit[1]
        if z3.is_true(term):
            return True
        if z3.is_false(term):
            return False
        st = z3.simplify(term) if term.num_args() else term
        if z3.is_true(st):
            v = True
        elif z3.is_false(st):
            v = False
        else:
            ks = st.get_id()
            hit = self.cache.get(ks)
            if hit is not None:
                v = hit[1]
            else:
                v = self._decide(st)
                self.cache[ks] = (st, v)
        self.cache[k] = (term, v)
        return v

    def _decide(self, term):
        if self.pos < len(self.stack):
            t, v, _, free, _lit = self.stack[self.pos]
            if t.get_id() != term.get_id():
                raise RuntimeError(f"E2: non-deterministic replay: expected {t}, got {term}")
            self.pos += 1
            if free:
                self.free_seen += 1
            lit = self.stack[self.pos - 1][4]
            if lit is None or lit[0] != v:
                lit = self.stack[self.pos - 1][4] = (v, term if v else z3.Not(term))
            self.s.add(lit[1])
            return v
        neg = z3.Not(term)
        can_t = self._check(term)
        can_f = self._check(neg)
        if not can_t and not can_f:
            raise Abort()
        free = can_t and can_f
        if free and self.free_seen < self.split_bits:
            v = bool((self.split_index >> self.free_seen) & 1)
            alt = False
        elif can_t:
            v, alt = True, can_f
        else:
            v, alt = False, False
        if free:
            self.free_seen += 1
        self.ndecisions += 1
        self.stack.append([term, v, alt, free, (v, term if v else neg)])
        self.pos += 1
        self.s.add(term if v else neg)
        return v

    def owns_path(self):
        """a path with fewer free decisions than split bits is owned by the worker whose remaining bits are 0"""
        if self.free_seen >= self.split_bits:
            return True
        return (self.split_index >> self.free_seen) == 0

    def model(self):
        if not self._check():
            raise Abort()
        return self.s.model()

    def random_model(self, bool_vars, int_vars, rng):
        """a model of pre-condition + path condition in which the listed variables take random values where consistent
        (greedy: variables in random order, each fixed to a random value if that is still satisfiable)"""
        fixed = []
        items = [("b", v) for v in bool_vars] + [("i", v) for v in int_vars]
        rng.shuffle(items)
        for kind, v in items:
            if kind == "b":
                lit = v if rng.random() < 0.5 else z3.Not(v)
                cands = [lit, z3.Not(lit)]
            else:
                lo, hi = v[1], v[2]
                order = list(range(lo, hi + 1))
                rng.shuffle(order)
                cands = [v[0] == k for k in order[:3]]
            for c in cands:
                if self.s.check(*(fixed + [c])) == z3.sat:
                    fixed.append(c)
                    break
        if self.s.check(*fixed) != z3.sat:
            return None
        return self.s.model()

    def check_post(self, negated_post):
        """is there a pre-state on this path violating the post-condition? returns model or None"""
        t0 = time.time()
        r = self.s.check(negated_post)
        self.solver_s += time.time() - t0
        if r == z3.unknown:
            raise RuntimeError("E2: solver returned unknown on a post-condition")
        return self.s.model() if r == z3.sat else None

    def finish(self):
        """pop the path frame; advance to the next decision vector; False when exhausted"""
        self.s.pop()
        while self.stack and not self.stack[-1][2]:
            self.stack.pop()
        if not self.stack:
            return False
        self.stack[-1][1] = not self.stack[-1][1]
        self.stack[-1][2] = False
        return True


def explore(pre, body, split_bits=0, split_index=0, max_paths=None):
    """body(oracle) is run once per feasible decision vector. Returns stats dict."""
    o = Oracle(pre, split_bits, split_index)
    paths = owned = aborted = 0
    t0 = time.time()
    exhausted = True
    while True:
        o.start()
        try:
            body(o, lambda: o.owns_path())
            paths += 1
            if o.owns_path():
                owned += 1
        except Abort:
            aborted += 1
        if not o.finish():
            break
        if max_paths and paths >= max_paths:
            exhausted = False
            break
    return {"paths": paths, "owned": owned, "aborted": aborted, "decisions": o.ndecisions, "checks": o.nchecks, "solver_s": o.solver_s, "wall_s": time.time() - t0, "exhausted": exhausted}
