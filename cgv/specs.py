"""z3 definitions used as oracles by the E2 checks (part of the trusted base)."""
import z3

from cgv.symgraph import MISSING, TS, TYPES, UNSUPPORTED

ZERO_IN = [TS[t] for t in ("input", "0", "1", "x", "bb_output")]
ONE_IN = [TS[t] for t in ("buf", "not", "bb_input")]
MULTI_IN = [TS[t] for t in ("and", "nand", "or", "nor", "xor", "xnor")]


def is_in(t, idxs):
    return z3.Or([t == k for k in idxs])


def count(conds):
    conds = list(conds)
    return z3.Sum([z3.If(c, 1, 0) for c in conds]) if conds else z3.IntVal(0)


def legal_wiring(names, present, typ, edge):
    """the wiring legality invariant of C07 (clauses 1-5 of the property) over accessor functions"""
    cs = []
    for v in names:
        tv = typ(v)
        indeg = count(z3.And(present(u), edge(u, v)) for u in names)
        outdeg = count(z3.And(present(w), edge(v, w)) for w in names)
        cs.append(z3.Implies(present(v), z3.And(
            z3.And(tv >= 0, tv < len(TYPES)),
            z3.Implies(is_in(tv, ZERO_IN), indeg == 0),
            z3.Implies(is_in(tv, ONE_IN), indeg <= 1),
            z3.Implies(tv == TS["bb_input"], outdeg == 0),
            z3.Implies(tv == TS["bb_output"], z3.And(outdeg <= 1, z3.And([z3.Implies(z3.And(present(w), edge(v, w)), typ(w) == TS["buf"]) for w in names]))),
        )))
    return z3.And(cs)


def pins_ok(bbs, present, typ, exempt=()):
    """every registered instance has all its pin nodes with the right pin type (exempt: names the caller removed)"""
    cs = []
    for inst, (ins, outs) in bbs.items():
        for p in ins:
            n = f"{inst}.{p}"
            if n not in exempt:
                cs.append(z3.And(present(n), typ(n) == TS["bb_input"]))
        for p in outs:
            n = f"{inst}.{p}"
            if n not in exempt:
                cs.append(z3.And(present(n), typ(n) == TS["bb_output"]))
    return z3.And(cs) if cs else z3.BoolVal(True)


def reach_plus(names, present, edge):
    """R[u][v]: a path of length >= 1 from u to v (bounded transitive closure, len(names) rounds)"""
    R = {(u, v): z3.And(present(u), present(v), edge(u, v)) for u in names for v in names}
    for _ in range(max(1, len(names).bit_length())):
        R = {(u, v): z3.Or([R[(u, v)]] + [z3.And(R[(u, w)], R[(w, v)]) for w in names]) for u in names for v in names}
    return R


def acyclic(names, present, edge):
    R = reach_plus(names, present, edge)
    return z3.And([z3.Not(R[(n, n)]) for n in names])


def sym_values(order, A, X, possible=None):
    """Boolean value term of every node of a circuit whose STRUCTURE is symbolic (types and edges are terms).
    order: node names in an order in which every possible edge goes forward; X: node -> free variable (used when the
    node is an input / blackbox output).  Gates are assumed driven (pre-condition)."""
    val = {}
    for i, v in enumerate(order):
        t = A.typ(v)
        ins = []
        for u in order[:i]:
            if possible is not None and not possible(u, v):
                continue
            e = A.edge(u, v)
            if z3.is_false(e):
                continue
            ins.append((e, val[u]))
        if ins:
            a_ = z3.And([z3.Implies(e, x) for e, x in ins])
            o_ = z3.Or([z3.And(e, x) for e, x in ins])
            x_ = z3.BoolVal(False)
            for e, x in ins:
                x_ = z3.Xor(x_, z3.And(e, x))
        else:
            a_, o_, x_ = z3.BoolVal(True), z3.BoolVal(False), z3.BoolVal(False)
        r = X[v]
        for ty, term in (("0", z3.BoolVal(False)), ("1", z3.BoolVal(True)), ("buf", o_), ("bb_input", o_), ("not", z3.Not(o_)), ("and", a_), ("nand", z3.Not(a_)),
                         ("or", o_), ("nor", z3.Not(o_)), ("xor", x_), ("xnor", z3.Not(x_))):
            r = z3.If(t == TS[ty], term, r)
        val[v] = r
    return val
