"""Worker-side context: obligations, vacuity twins, side assertions, violations, stats."""
import hashlib
import inspect
import json
import os
import sys
import time
import traceback

import z3

SOLVER_TIMEOUT_MS = int(os.environ.get("CGV_SOLVER_TIMEOUT_MS", "120000"))
z3.set_param("memory_max_size", int(os.environ.get("CGV_Z3_MEM_MB", "6000")))  # a runaway query raises instead of being OOM-killed


class HarnessError(Exception):
    """something is wrong with the harness (not with the code under check)"""


def short_hash(obj):
    return hashlib.sha256(json.dumps(obj, sort_keys=True, default=str).encode()).hexdigest()[:12]


class Ctx:
    def __init__(self, pid, tier, seed, hashseed, shard, nshards, only_case=None):
        self.pid, self.tier, self.seed = pid, tier, seed
        self.hashseed, self.shard, self.nshards = hashseed, shard, nshards
        self.only_case = only_case
        self.quick = tier == "quick"
        self.case_id = None
        self.r = {
            "programs": 0,
            "obligations": 0,
            "unsat": 0,
            "sat": 0,
            "unknown": 0,
            "twins": 0,
            "twins_sat": 0,
            "side": 0,
            "side_failed": 0,
            "rejected": 0,
            "replays": 0,
            "lint_clean_outputs": 0,
            "solver_s": 0.0,
            "violations": [],
            "harness_errors": [],
            "inconclusive": [],
            "samples": [],
            "queries": [],
            "structures": [],
            "counters": {},
            "functions": {},
            "notes": [],
        }
        self._case_index = 0

    # ------------------------------------------------------------- bookkeeping
    def functions(self, *fs):
        for f in fs:
            try:
                src = inspect.getsource(f)
                name = f"{f.__module__}.{f.__qualname__}"
                self.r["functions"][name] = hashlib.sha256(src.encode()).hexdigest()[:16]
            except Exception as e:  # pragma: no cover
                self.r["functions"][str(f)] = f"unavailable: {e}"

    def count(self, key, n=1):
        self.r["counters"][key] = self.r["counters"].get(key, 0) + n

    def note(self, s):
        if s not in self.r["notes"]:
            self.r["notes"].append(s)

    def cases(self, items):
        """iterate over the cases of this shard; items = iterable of (case_id, payload)"""
        for cid, payload in items:
            idx = self._case_index
            self._case_index += 1
            if self.only_case is not None:
                if cid != self.only_case:
                    continue
            elif (idx + idx // self.nshards) % self.nshards != self.shard:
                continue  # diagonal assignment: consecutive blocks of nshards cases are rotated over the shards
            self.case_id = cid
            self.r["programs"] += 1
            h = short_hash(cid)
            self.r["structures"].append(h)
            try:
                yield cid, payload
            except GeneratorExit:
                raise
        self.case_id = None

    def sample(self, obj, limit=3):
        if len(self.r["samples"]) < limit:
            self.r["samples"].append(obj)

    def rejected(self, why=""):
        self.r["rejected"] += 1
        if why:
            self.count("rejected:" + why)

    # ------------------------------------------------------------ obligations
    def _solver(self):
        s = z3.Solver()
        s.set("timeout", SOLVER_TIMEOUT_MS)
        return s

    def prove(self, tag, negated, on_sat, info=None):
        """Assert `negated` (list of z3 formulas = negation of the property); UNSAT = holds.
        on_sat(model) -> dict(reproduced=bool, sig=str, what=str, detail=...) replays the
        counterexample on the real code / independent simulator."""
        self.r["obligations"] += 1
        s = self._solver()
        s.add(*negated)
        if self.r["obligations"] <= 40:
            # keep one representative query (the largest of the first 40 that fits) for the evidence
            try:
                txt = s.to_smt2()
                best = self.r["queries"][0]["smt2"] if self.r["queries"] else ""
                if len(best) < len(txt) <= 3500:
                    self.r["queries"] = [{"tag": tag, "case": self.case_id, "smt2": txt}]
            except Exception:
                pass
        t0 = time.time()
        res = s.check()
        self.r["solver_s"] += time.time() - t0
        if res != z3.unknown:
            self._cross(tag, s, res)
        if res == z3.unsat:
            self.r["unsat"] += 1
            return True
        if res == z3.unknown:
            self.r["unknown"] += 1
            self.r["inconclusive"].append({"tag": tag, "case": self.case_id, "why": s.reason_unknown()})
            return None
        self.r["sat"] += 1
        model = s.model()
        try:
            rep = on_sat(model)
        except Exception as e:
            rep = {"reproduced": False, "what": f"replay crashed: {e!r}", "detail": traceback.format_exc()}
        self.r["replays"] += 1
        if not rep.get("reproduced"):
            self.r["harness_errors"].append(
                {"tag": tag, "case": self.case_id, "why": "counterexample did not reproduce", "rep": rep}
            )
            return False
        self.violation(rep.get("sig") or f"{tag}", rep.get("what", tag), rep.get("detail"), tag=tag, info=info)
        return False

    def _cross(self, tag, s, res):
        """thorough tier: re-decide a sample of obligations with /usr/bin/z3 4.8.12 and the cvc5 1.0.3 binary (SMT-LIB2 export);
        a disagreement or an `(error` line makes the run inconclusive"""
        if self.quick or os.environ.get("CGV_NO_CROSS"):
            return
        self._ncross = getattr(self, "_ncross", 0) + 1
        if self._ncross % 40 != 1 or self.r["counters"].get("cross_checked", 0) >= 12:
            return
        import subprocess
        import tempfile

        try:
            txt = "(set-logic ALL)\n" + s.to_smt2()
        except Exception:  # noqa
            return
        if len(txt) > 2_000_000 or "\\" in txt:
            self.count("cross_skipped_unexportable")  # e.g. escaped identifiers: cvc5 rejects a backslash inside |quoted| symbols
            return
        self.count("cross_checked")
        with tempfile.NamedTemporaryFile("w", suffix=".smt2", prefix="cgv_x_", delete=True) as f:
            f.write(txt)
            f.flush()
            for name, cmd in (("z3-4.8.12", ["/usr/bin/z3", "-T:20", f.name]), ("cvc5-1.0.3", ["cvc5", "--tlimit=20000", f.name])):
                try:
                    p = subprocess.run(cmd, capture_output=True, text=True, timeout=40)
                    out = (p.stdout + p.stderr).strip()
                except Exception as e:  # noqa
                    out = f"timeout/{e!r}"
                first = out.split("\n")[0].strip() if out else ""
                if "(error" in out:
                    self.count(f"cross_{name}_error")
                    self.r["inconclusive"].append({"tag": tag, "case": self.case_id, "why": f"{name}: {out[:200]}"})
                elif first in ("sat", "unsat"):
                    if first == str(res):
                        self.count(f"cross_{name}_agree")
                    else:
                        self.count(f"cross_{name}_disagree")
                        self.r["inconclusive"].append({"tag": tag, "case": self.case_id, "why": f"{name} says {first}, z3 5.1.0 says {res}"})
                else:
                    self.count(f"cross_{name}_noanswer")

    def twin(self, tag, formulas):
        """vacuity guard: these formulas must be satisfiable"""
        self.r["twins"] += 1
        s = self._solver()
        s.add(*formulas)
        t0 = time.time()
        res = s.check()
        self.r["solver_s"] += time.time() - t0
        if res == z3.sat:
            self.r["twins_sat"] += 1
            return True
        self.r["harness_errors"].append({"tag": tag, "case": self.case_id, "why": f"vacuity twin returned {res}"})
        return False

    def side(self, tag, ok, sig=None, what=None, detail=None):
        """concrete side assertion (not a solver verdict; counted separately)"""
        self.r["side"] += 1
        if ok:
            return True
        self.r["side_failed"] += 1
        self.violation(sig or tag, what or tag, detail, tag=tag, concrete=True)
        return False

    def violation(self, sig, what, detail=None, tag=None, info=None, concrete=False):
        self.r["violations"].append(
            {
                "property": self.pid,
                "sig": sig,
                "what": what,
                "tag": tag,
                "case": self.case_id,
                "hashseed": self.hashseed,
                "tier": self.tier,
                "seed": self.seed,
                "concrete": concrete,
                "detail": detail,
                "info": info,
            }
        )

    def harness_error(self, why, detail=None):
        self.r["harness_errors"].append({"case": self.case_id, "why": why, "detail": detail})

    def unchanged(self, tag, c, spec):
        """side assertion: a function that must not modify its argument left circuit `c` equal to `spec` (nodes, attributes,
        edges, name, blackbox registry incl. the pin sets of the BlackBox objects)"""
        from cgv.net import Net

        now, ref = Net.of(c).spec(), Net.from_spec(spec).spec()
        return self.side(tag + ":argument-unchanged", now == ref, tag + ":mutates-argument", f"{tag} modified the circuit passed to it")

    def lint_clean(self, c, tag, sig=None, **flags):
        """side assertion used by every E1 harness: library outputs pass the real lint"""
        import circuitgraph as cg

        try:
            cg.lint(c, **flags)
            self.r["lint_clean_outputs"] += 1
            return True
        except ValueError as e:
            self.side(tag + ":lint", False, sig or (tag + ":lint"), f"library output is not lint-clean: {str(e)[:200]}")
            return False


def call(f, *a, **k):
    """run a library call; returns (value, None) or (None, exception)"""
    try:
        return f(*a, **k), None
    except Exception as e:  # noqa: BLE001 - BaseException deliberately not caught
        return None, e
