"""Regenerate MANIFEST.json from the property modules' META (run: .venv/bin/python -m cgv.manifest)."""
import importlib
import json
import os
import sys

ROOT = os.path.dirname(os.path.dirname(os.path.abspath(__file__)))
sys.path.insert(0, ROOT)
sys.path.insert(0, os.path.join(ROOT, "cgv", "shim"))

NOT_APPLICABLE = {
    "C19": "Side-effect freedom / absence of aliasing is about object identity and heap state before and after a call; there is no value for a solver to range over, and a symbolic pre-state adds nothing (a missing copy shows on any input). Deciding it needs snapshot comparison of concrete runs, i.e. a different technique family (DESIGN.md section 6). Not claimed; as hygiene only, every E1 harness asserts concretely that the circuit it passed is unchanged (ctx.unchanged) and the E2 checks of the read-only methods and lint require an empty write log on every path.",
}


def main():
    props = [l and json.loads(l) for l in open(os.path.join(ROOT, "properties.jsonl")) if l.strip()]
    checks, na = [], []
    engines = {}
    for p in props:
        pid = p["id"]
        path = os.path.join(ROOT, "cgv", "props", f"{pid}.py")
        if pid in NOT_APPLICABLE or not os.path.exists(path):
            na.append({"property_id": pid, "reason": NOT_APPLICABLE.get(pid, "check not built yet (work in progress); no claim is made")})
            continue
        M = importlib.import_module(f"cgv.props.{pid}").META
        eng = M["engine"].split(" ")[0]
        engines.setdefault(eng, []).append(pid)
        c = {
            "property_id": pid,
            "quick_cmd": f"./check {pid} --tier quick",
            "thorough_cmd": f"./check {pid} --tier thorough",
            "evidence_file": f"/verif/evidence/{pid}.json",
            "replay_cmd_template": f"./check {pid} --replay {{path}}",
            "engine": eng,
            "level_claimed": {
                "category": M["level"],
                "text": M.get("level_text") or ("Bounded solver verdict: for every structure of the stated family and ALL values of the symbolic variables, z3 proves the obligation (UNSAT) or yields a counterexample that is replayed on the real code. " + str(M["bounds"]["quick"] if isinstance(M["bounds"], dict) else M["bounds"])),
                "design_ref": M.get("design_ref", f"DESIGN.md section 5, {pid}"),
            },
            "level_note": M.get("level_note") or "; ".join(M.get("assumptions", [])) + ". Outside the claim: " + "; ".join(M.get("outside", [])),
            "technique": M.get("technique", M["engine"]),
        }
        checks.append(c)
    man = {
        "version": 1,
        "setup_cmd": "./setup.sh",
        "hooks": {
            "guard": "CIRCUITGRAPH_VERIF",
            "enable": "no source hooks are needed: the harness injects a z3-backed pysat stand-in and an approxmc stand-in through sys.path/PATH and swaps Circuit.graph for a symbolic graph at run time; CIRCUITGRAPH_VERIF is reserved and unused",
            "baseline_off_cmd": "cd /repo && /venv/bin/python -m pytest -ra -q -p no:cacheprovider --timeout=900 --continue-on-collection-errors",
            "source_commits": [],
            "add_only": True,
        },
        "engines": [
            {"name": "E1", "path": "cgv/sem.py, cgv/core.py", "serves_properties": engines.get("E1", []), "kind_free_text": "artifact-level SMT: run the real function, encode argument snapshot and result with the trusted gate semantics, z3 decides the property for all valuations; counterexamples replayed on an independent simulator / the real API"},
            {"name": "E2", "path": "cgv/lazyfork.py, cgv/symgraph.py, cgv/specs.py", "serves_properties": engines.get("E2", []), "kind_free_text": "lazy-fork symbolic execution of the real Circuit/lint source over a symbolic graph state (presence/type/output/edge bits are z3 variables); z3 proves the post-condition per path for all un-inspected bits"},
            {"name": "E3", "path": "cgv/props/C13.py", "serves_properties": engines.get("E3", []), "kind_free_text": "CrossHair on pure integer helpers"},
        ],
        "checks": checks,
        "not_applicable": na,
        "notes": "All checks: exit 0 = held within the stated bound; exit 1 + VIOLATION line = replayed counterexample not in known_findings.json; exit 2 = harness error or inconclusive solver answer (never a pass). See DESIGN.md.",
    }
    json.dump(man, open(os.path.join(ROOT, "MANIFEST.json"), "w"), indent=1)
    print("MANIFEST.json:", len(checks), "checks,", len(na), "not applicable")


if __name__ == "__main__":
    main()
