"""One worker process: runs a property module's cases for one (hash seed, shard)."""
import argparse
import importlib
import json
import os
import sys
import time
import traceback

HERE = os.path.dirname(os.path.abspath(__file__))


def setup_env():
    shim = os.path.join(HERE, "shim")
    if shim not in sys.path:
        sys.path.insert(0, shim)
    os.environ["PATH"] = os.path.join(shim, "bin") + os.pathsep + os.environ.get("PATH", "")
    os.environ["CGV_PYTHON"] = sys.executable
    repo = os.environ.get("CGV_REPO", "/repo")
    if repo not in sys.path:
        sys.path.insert(0, repo)


def _die_with_parent():
    """a worker must not outlive its runner (a killed / timed-out check would otherwise keep 16 cores busy)"""
    import threading

    ppid = os.getppid()

    def watch():
        while True:
            time.sleep(2)
            if os.getppid() != ppid:
                os._exit(3)

    threading.Thread(target=watch, daemon=True).start()


def main():
    _die_with_parent()
    ap = argparse.ArgumentParser()
    ap.add_argument("pid")
    ap.add_argument("--tier", default="quick")
    ap.add_argument("--seed", type=int, default=0)
    ap.add_argument("--hashseed", type=int, default=0)
    ap.add_argument("--shard", type=int, default=0)
    ap.add_argument("--nshards", type=int, default=1)
    ap.add_argument("--case", default=None)
    ap.add_argument("--out", required=True)
    a = ap.parse_args()
    assert os.environ.get("PYTHONHASHSEED") == str(a.hashseed), "worker must be started with PYTHONHASHSEED"
    setup_env()
    from cgv.core import Ctx

    only = json.loads(a.case) if a.case else None
    if isinstance(only, list):
        only = _tuplify(only)
    ctx = Ctx(a.pid, a.tier, a.seed, a.hashseed, a.shard, a.nshards, only_case=only)
    t0 = time.time()
    try:
        mod = importlib.import_module(f"cgv.props.{a.pid}")
        mod.run(ctx)
    except Exception:
        ctx.r["harness_errors"].append({"case": ctx.case_id, "why": "worker crashed", "detail": traceback.format_exc()})
    ctx.r["wall_s"] = time.time() - t0
    with open(a.out, "w") as f:
        json.dump(ctx.r, f, default=str)


def _tuplify(x):
    return tuple(_tuplify(i) for i in x) if isinstance(x, list) else x


if __name__ == "__main__":
    main()
