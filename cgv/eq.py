"""Shared E1 obligation: nodes of two acyclic Nets compute the same function for ALL valuations."""
import z3

from cgv import sim
from cgv.sem import Sem


def free_env(S, net, prefix, share=None):
    """node -> (varname) for every free node; share: node -> varname override"""
    names = {}
    for n in net.free():
        names[n] = (share or {}).get(n, prefix + n)
    return names, {n: S.var(v) for n, v in names.items()}


def prove_equal(ctx, tag, A, B, pairs, share_b=None, sig=None, what=None, detail=None, override_a=None, override_b=None, sim_override_a=None, sim_override_b=None):
    """For all valuations of the free signals: value(A, a) == value(B, b) for (a, b) in pairs.

    Free nodes of A get variable 'v!<name>'.  Free nodes of B share A's variable when they
    have the same name (or share_b maps them to an A node name); otherwise they get a fresh
    'w!<name>' variable (independent signal).
    """
    S = Sem(kleene=A.has_x() or B.has_x())
    na, ea = free_env(S, A, "v!")
    sb = {}
    for n in B.free():
        src = (share_b or {}).get(n, n)
        if src in na:
            sb[n] = na[src]
    nb, eb = free_env(S, B, "w!", sb)
    fa = S.fn(A, ea, override_a)
    fb = S.fn(B, eb, override_b)
    pairs = list(pairs)
    for a, b in pairs:
        if a not in fa or b not in fb:
            ctx.side(tag + ":present", False, (sig if isinstance(sig, str) else tag) + ":missing-node", f"node missing for comparison: {a!r} / {b!r}", detail)
            return False
    if not pairs:
        return True
    diff = z3.Or([S.neq(fa[a], fb[b]) for a, b in pairs])

    def replay(m):
        bits = sim.model_bits(m, S.vars)
        va = sim.evaluate(A, {n: bits.get(v, 0) for n, v in na.items()}, sim_override_a)
        vb = sim.evaluate(B, {n: bits.get(v, 0) for n, v in nb.items()}, sim_override_b)
        bad = [(a, b, va[a], vb[b]) for a, b in pairs if va[a] != vb[b]]
        d = {"valuation": bits, "differs": bad[:5]}
        if detail:
            d.update(detail)
        return {"reproduced": bool(bad), "sig": sig(bad) if callable(sig) else (sig or tag), "what": (what or tag) + (f": node {bad[0][0]!r} {bad[0][2]} vs {bad[0][3]}" if bad else ""), "detail": d}

    return ctx.prove(tag, [diff], replay)


def twin_differs(ctx, tag, A, B, pairs, share_b=None):
    """vacuity twin: with a deliberately wrong pairing/oracle the difference must be SAT"""
    S = Sem(kleene=A.has_x() or B.has_x())
    na, ea = free_env(S, A, "v!")
    sb = {n: na[(share_b or {}).get(n, n)] for n in B.free() if (share_b or {}).get(n, n) in na}
    nb, eb = free_env(S, B, "w!", sb)
    fa, fb = S.fn(A, ea), S.fn(B, eb)
    return ctx.twin(tag, [z3.Or([S.neq(fa[a], fb[b]) for a, b in pairs])])


def mutate_one_gate(spec, k=0):
    """harness-side wrong oracle: flip the polarity of the k-th gate (and<->nand ...)"""
    flip = {"and": "nand", "nand": "and", "or": "nor", "nor": "or", "xor": "xnor", "xnor": "xor", "buf": "not", "not": "buf"}
    s = {"name": spec["name"], "nodes": [list(n) for n in spec["nodes"]], "edges": [list(e) for e in spec["edges"]], "bbs": dict(spec.get("bbs", {}))}
    driven = {v for _, v in s["edges"]}
    gates = [i for i, n in enumerate(s["nodes"]) if n[1] in flip and n[0] in driven]
    if not gates:
        return None
    i = gates[k % len(gates)]
    s["nodes"][i][1] = flip[s["nodes"][i][1]]
    return s
