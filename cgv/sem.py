"""TRUSTED gate semantics -> z3.

Two algebras:
  * Bool   : every signal is a z3 Bool.
  * Kleene : every signal is a pair (is1, is0) of z3 Bools (X = neither); used
             whenever a circuit contains a constant `x`, and as C10's reference.

fn()  : functional encoding of an acyclic Net (term per node).
rel() : relational encoding ("consistent valuation") of any Net, Bool only.
"""
from functools import reduce

import z3

T = z3.BoolVal(True)
F = z3.BoolVal(False)


def _and(xs):
    xs = list(xs)
    return xs[0] if len(xs) == 1 else z3.And(xs)


def _or(xs):
    xs = list(xs)
    return xs[0] if len(xs) == 1 else z3.Or(xs)


def gate_bool(t, fi):
    """n-ary Boolean function of gate type t"""
    if not fi:
        raise ValueError(f"gate {t} without fan-in")
    if t in ("and", "nand"):
        f = _and(fi)
    elif t in ("or", "nor"):
        f = _or(fi)
    elif t in ("xor", "xnor"):
        f = reduce(z3.Xor, fi)
    elif t in ("buf", "not", "bb_input"):
        if len(fi) != 1:
            raise ValueError(f"{t} with {len(fi)} fan-in")
        f = fi[0]
    else:
        raise ValueError(f"unknown gate type {t!r}")
    if t in ("nand", "nor", "xnor", "not"):
        f = z3.Not(f)
    return f


def gate_kleene(t, fi):
    """dual-rail Kleene: value = (is1, is0)"""
    if not fi:
        raise ValueError(f"gate {t} without fan-in")
    if t in ("and", "nand"):
        one, zero = _and([a for a, _ in fi]), _or([b for _, b in fi])
    elif t in ("or", "nor"):
        one, zero = _or([a for a, _ in fi]), _and([b for _, b in fi])
    elif t in ("xor", "xnor"):
        def x2(p, q):
            return (
                z3.Or(z3.And(p[0], q[1]), z3.And(p[1], q[0])),
                z3.Or(z3.And(p[0], q[0]), z3.And(p[1], q[1])),
            )
        one, zero = reduce(x2, fi)
    elif t in ("buf", "not", "bb_input"):
        if len(fi) != 1:
            raise ValueError(f"{t} with {len(fi)} fan-in")
        one, zero = fi[0]
    else:
        raise ValueError(f"unknown gate type {t!r}")
    if t in ("nand", "nor", "xnor", "not"):
        one, zero = zero, one
    return (one, zero)


class Sem:
    def __init__(self, kleene=False):
        self.kleene = kleene
        self.vars = {}

    # -- values
    def var(self, name):
        """fresh/free binary signal (a definite 0/1 value)"""
        if name not in self.vars:
            self.vars[name] = z3.Bool(name)
        b = self.vars[name]
        return (b, z3.Not(b)) if self.kleene else b

    def lift(self, b):
        return (b, z3.Not(b)) if self.kleene else b

    def const(self, t):
        if t == "0":
            return (F, T) if self.kleene else F
        if t == "1":
            return (T, F) if self.kleene else T
        if t == "x":
            if not self.kleene:
                raise ValueError("constant x needs the Kleene algebra")
            return (F, F)
        raise ValueError(t)

    def gate(self, t, fi):
        return gate_kleene(t, fi) if self.kleene else gate_bool(t, fi)

    def not_(self, a):
        return (a[1], a[0]) if self.kleene else z3.Not(a)

    def neq(self, a, b):
        """z3 Bool: signals differ"""
        if self.kleene:
            return z3.Or(z3.Xor(a[0], b[0]), z3.Xor(a[1], b[1]))
        return z3.Xor(a, b)

    def eq(self, a, b):
        return z3.Not(self.neq(a, b))

    # -- functional encoding
    def fn(self, net, env, override=None):
        """env: free node -> value. Missing free nodes get self.var(prefix+name).
        override: node -> f(default_value, val_dict) applied after computing the node."""
        val = {}
        for n in net.topo():
            t = net.types[n]
            if t in ("0", "1", "x"):
                v = self.const(t)
            elif net.is_free(n):
                if n not in env:
                    raise KeyError(f"no value for free signal {n!r}")
                v = env[n]
            else:
                v = self.gate(t, [val[p] for p in net.preds[n]])
            if override and n in override:
                v = override[n](v, val)
            val[n] = v
        return val


def rel(net, V):
    """Bool relational semantics: conjunction over nodes of V[n] == gate(V[fanin])"""
    cs = []
    for n in net.nodes():
        t = net.types[n]
        if t == "0":
            cs.append(z3.Not(V[n]))
        elif t == "1":
            cs.append(V[n])
        elif t == "x":
            raise ValueError("rel(): constant x not supported")
        elif net.is_free(n):
            pass
        else:
            cs.append(V[n] == gate_bool(t, [V[p] for p in net.preds[n]]))
    return z3.And(cs) if cs else T


def boolvars(prefix, names):
    return {n: z3.Bool(f"{prefix}{n}") for n in names}


def bv_of(bits):
    """little-endian list of Bool terms -> BitVec"""
    w = len(bits)
    return reduce(
        lambda a, b: a | b,
        [z3.If(b, z3.BitVecVal(1 << i, w), z3.BitVecVal(0, w)) for i, b in enumerate(bits)],
    )
