"""E2: symbolic stand-in for networkx.DiGraph over a finite name universe + nx function stubs.

Pre-state variables per name n in the universe U: P[n] (present), T[n] (type index), O[n]
(output flag), and per ordered pair E[u,v] (edge).  The object implements exactly the
DiGraph API circuitgraph.circuit / utils.lint use, as a write log over the symbolic base.
These stubs ARE the networkx contract the claims rest on; they are validated on every run
by conformance replays against real networkx (see props/*: conformance()).
"""
import networkx as real_nx
import z3

from cgv.lazyfork import Abort

TYPES = ["buf", "and", "or", "xor", "not", "nand", "nor", "xnor", "0", "1", "x", "input", "bb_input", "bb_output"]
TS = {t: i for i, t in enumerate(TYPES)}
UNSUPPORTED = len(TYPES)  # a type string that is not supported ("bogus")
MISSING = len(TYPES) + 1  # node without a type attribute
NONSTR = len(TYPES) + 2  # type attribute is not a string but prints like a supported type (the int 0)
BOGUS = "bogus_type"


_EQ = {}
_T = z3.BoolVal(True)
_F = z3.BoolVal(False)


class SymType:
    """a node type that may be symbolic; comparisons fork through the oracle"""

    __slots__ = ("o", "term")

    def __init__(self, oracle, term):
        self.o, self.term = oracle, term

    def __eq__(self, other):
        if isinstance(other, SymType):
            return self.o.decide(self.term == other.term)
        if not isinstance(other, str):
            return False
        if other in TS:
            return self._is(TS[other])
        if other == BOGUS:
            return self._is(UNSUPPORTED)
        return False

    def _is(self, idx):
        """decide term == idx; once the type is pinned on this path, other comparisons need no solver call"""
        tid = self.term.get_id()
        pin = self.o.cache.get(("pin", tid))
        if pin is not None:
            return pin == idx
        key = (tid, idx)
        t = _EQ.get(key)
        if t is None:
            t = _EQ[key] = (self.term, self.term == idx)
        v = self.o.decide(t[1])
        if v:
            self.o.cache[("pin", tid)] = idx
        return v

    def __ne__(self, other):
        return not self.__eq__(other)

    def pin(self):
        for t in TYPES:
            if self == t:
                return t
        return BOGUS

    def __hash__(self):
        return hash(self.pin())

    def __str__(self):
        return self.pin()

    def __repr__(self):
        return repr(self.pin())

    def __format__(self, spec):
        return format(self.pin(), spec)

    def upper(self):
        return self.pin().upper()


class Attr:
    """g.nodes[n]"""

    def __init__(self, g, n):
        self.g, self.n = g, n

    def __getitem__(self, k):
        g, n = self.g, self.n
        if (n, k) in g.wattr:
            return g.wattr[(n, k)]
        if n in g.fresh:
            raise KeyError(k)
        if k == "type":
            if g.o.decide(g.T[n] == MISSING):
                raise KeyError(k)
            if g.allow_nonstr and g.o.decide(g.T[n] == NONSTR):
                return 0  # a concrete non-string type value
            if g.pin_types:
                return SymType(g.o, g.T[n]).pin()  # fall-back mode: a plain str (the type is decided as soon as it is read)
            return SymType(g.o, g.T[n])
        if k == "output":
            if g.OM is not None and g.o.decide(g.OM[n]):
                raise KeyError(k)  # node without an `output` attribute (Circuit.is_output treats it as False)
            return g.o.decide(g.O[n])
        raise KeyError(k)

    def get(self, k, default=None):
        try:
            return self[k]
        except KeyError:
            return default

    def __setitem__(self, k, v):
        self.g.wattr[(self.n, k)] = v

    def __contains__(self, k):
        try:
            self[k]
            return True
        except KeyError:
            return False

    def keys(self):
        return [k for k in ("type", "output") if k in self]

    def __iter__(self):
        return iter(self.keys())

    def items(self):
        return [(k, self[k]) for k in self.keys()]


class NodeView:
    def __init__(self, g):
        self.g = g

    def __contains__(self, n):
        return n in self.g

    def __iter__(self):
        return iter(self.g)

    def __len__(self):
        return len(self.g)

    def __getitem__(self, n):
        if n not in self.g:
            raise KeyError(n)
        return Attr(self.g, n)

    def data(self):
        return [(n, dict(Attr(self.g, n).items())) for n in self.g]

    def __call__(self, data=False):
        return self.data() if data else list(self.g)


class SymDiGraph:
    is_symbolic = True

    def __init__(self, oracle, U, vars_=None):
        self.o = oracle
        self.U = list(U)
        if vars_ is None:
            vars_ = make_vars(self.U)
        self.P, self.T, self.O, self.E = vars_
        self.wnode = {}  # name -> True/False (added / removed)
        self.fresh = set()  # names whose base attributes/edges no longer apply (removed, or created)
        self.wattr = {}  # (name, key) -> value (python value or SymType)
        self.wedge = {}  # (u, v) -> True/False
        self.created = []  # names outside U that were added, in order
        self.graph = {}
        self.pin_types = False
        self.allow_nonstr = False
        self.OM = None  # optional: name -> Bool "the node has no `output` attribute"

    # ---------------------------------------------------------------- symbolic state accessors (z3 terms)
    def names(self):
        return self.U + self.created

    def present(self, n):
        if n in self.wnode:
            return _T if self.wnode[n] else _F
        if n in self.P and n not in self.fresh:
            return self.P[n]
        return _F

    def edge(self, u, v):
        w = self.wedge.get((u, v))
        if w is not None:
            return _T if w else _F
        if u in self.fresh or v in self.fresh:
            return _F
        e = self.E.get((u, v))
        return e if e is not None else _F

    def type_term(self, n):
        w = self.wattr.get((n, "type"))
        if w is not None:
            if isinstance(w, SymType):
                return w.term
            return z3.IntVal(TS.get(w, UNSUPPORTED))
        if n in self.fresh or n not in self.T:
            return z3.IntVal(MISSING)
        return self.T[n]

    def output_term(self, n):
        w = self.wattr.get((n, "output"))
        if w is not None:
            return z3.BoolVal(bool(w))
        if n in self.fresh or n not in self.O:
            return z3.BoolVal(False)
        if self.OM is not None:
            return z3.And(self.O[n], z3.Not(self.OM[n]))
        return self.O[n]

    # ------------------------------------------------------------------------------- DiGraph API
    def __contains__(self, n):
        try:
            hash(n)
        except TypeError:
            return False
        if not isinstance(n, str):
            return False
        return self.o.decide(self.present(n))

    def __iter__(self):
        return iter([n for n in self.names() if n in self])

    def __len__(self):
        return len(list(iter(self)))

    def __bool__(self):
        return True

    @property
    def nodes(self):
        return NodeView(self)

    @property
    def edges(self):
        return [(u, v) for u in self for v in self.successors(u)]

    def has_edge(self, u, v):
        return self.o.decide(self.edge(u, v))

    def has_node(self, n):
        return n in self

    def number_of_nodes(self):
        return len(self)

    def order(self):
        return len(self)

    def number_of_edges(self, u=None, v=None):
        if u is not None and v is not None:
            return 1 if self.has_edge(u, v) else 0
        return len(self.edges)

    def size(self, weight=None):
        return len(self.edges)

    def predecessors(self, n):
        if n not in self:
            raise real_nx.NetworkXError(f"The node {n} is not in the digraph.")
        return iter([u for u in self.names() if self.o.decide(self.edge(u, n))])

    def successors(self, n):
        if n not in self:
            raise real_nx.NetworkXError(f"The node {n} is not in the digraph.")
        return iter([v for v in self.names() if self.o.decide(self.edge(n, v))])

    def in_degree(self, n):
        return len(list(self.predecessors(n)))

    def out_degree(self, n):
        return len(list(self.successors(n)))

    def add_node(self, n, **attrs):
        if n not in self:
            if n not in self.U and n not in self.created:
                self.created.append(n)
            self.wnode[n] = True
            self.fresh.add(n)
            for k in [k for k in self.wattr if k[0] == n]:
                del self.wattr[k]
            for k in [k for k in self.wedge if n in k]:
                self.wedge[k] = False
        for k, v in attrs.items():
            self.wattr[(n, k)] = v

    def add_nodes_from(self, ns, **attrs):
        for n in ns:
            if isinstance(n, tuple) and len(n) == 2 and isinstance(n[1], dict):
                d = dict(attrs)
                d.update(n[1])
                self.add_node(n[0], **d)
            else:
                self.add_node(n, **attrs)

    def add_edge(self, u, v, **kw):
        for n in (u, v):
            if n not in self:
                self.add_node(n)
        self.wedge[(u, v)] = True

    def add_edges_from(self, es, **kw):
        for e in list(es):
            self.add_edge(e[0], e[1])

    def remove_node(self, n):
        if n not in self:
            raise real_nx.NetworkXError(f"The node {n} is not in the digraph.")
        self._remove(n)

    def _remove(self, n):
        self.wnode[n] = False
        self.fresh.add(n)
        for k in [k for k in self.wattr if k[0] == n]:
            del self.wattr[k]
        for m in self.names():
            self.wedge[(n, m)] = False
            self.wedge[(m, n)] = False

    def remove_nodes_from(self, ns):
        for n in list(ns):
            if n in self:
                self._remove(n)

    def remove_edge(self, u, v):
        if not self.has_edge(u, v):
            raise real_nx.NetworkXError(f"The edge {u}-{v} not in graph.")
        self.wedge[(u, v)] = False

    def remove_edges_from(self, es):
        for e in list(es):
            u, v = e[0], e[1]
            if u in self and v in self:
                self.wedge[(u, v)] = False

    def update(self, edges=None, nodes=None):
        other = edges
        if not hasattr(other, "nodes"):
            raise NotImplementedError("SymDiGraph.update: only graph-like argument")
        for n, d in other.nodes.data():
            self.add_node(n, **d)
        for u, v in other.edges:
            self.add_edge(u, v)

    def is_multigraph(self):
        return False

    def is_directed(self):
        return True

    def copy(self, as_view=False):
        """copy = same symbolic base, private copy of the write log"""
        g = SymDiGraph(self.o, self.U, (self.P, self.T, self.O, self.E))
        g.wnode, g.fresh, g.wattr, g.wedge = dict(self.wnode), set(self.fresh), dict(self.wattr), dict(self.wedge)
        g.created = list(self.created)
        g.pin_types = self.pin_types
        g.allow_nonstr = self.allow_nonstr
        g.OM = self.OM
        return g


def make_vars(U, self_loops=True):
    P = {n: z3.Bool(f"P!{n}") for n in U}
    T = {n: z3.Int(f"T!{n}") for n in U}
    O = {n: z3.Bool(f"O!{n}") for n in U}
    E = {(u, v): z3.Bool(f"E!{u}!{v}") for u in U for v in U if self_loops or u != v}
    return P, T, O, E


def base_pre(vars_, types=None, dag_order=None):
    """domain constraints: type range, edges only between present nodes, optional DAG (edges only forward in dag_order)"""
    P, T, O, E = vars_
    cs = []
    for n in T:
        if types is None:
            cs.append(z3.And(T[n] >= 0, T[n] < len(TYPES)))
        else:
            cs.append(z3.Or([T[n] == (TS[t] if t in TS else {"UNSUPPORTED": UNSUPPORTED, "MISSING": MISSING, "NONSTR": NONSTR}[t]) for t in types]))
    for (u, v), e in E.items():
        cs.append(z3.Implies(e, z3.And(P[u], P[v])))
        if dag_order is not None and dag_order.index(u) >= dag_order.index(v):
            cs.append(z3.Not(e))
    for n in O:
        cs.append(z3.Implies(O[n], P[n]))
    return cs


# ------------------------------------------------------------------------------------ nx stubs
class NxProxy:
    """stands in for the `nx` name inside the module under test; dispatches on the graph class"""

    def __init__(self):
        self.DiGraph = real_nx.DiGraph
        self.NetworkXError = real_nx.NetworkXError
        self.NetworkXUnfeasible = real_nx.NetworkXUnfeasible
        self.NetworkXNoCycle = real_nx.NetworkXNoCycle

    def __getattr__(self, name):
        return getattr(real_nx, name)

    def get_node_attributes(self, g, name, default=None):
        if not getattr(g, "is_symbolic", False):
            return real_nx.get_node_attributes(g, name) if default is None else real_nx.get_node_attributes(g, name, default)
        out = {}
        for n in g:
            a = Attr(g, n)
            if name in a:
                out[n] = a[name]
            elif default is not None:
                out[n] = default
        return out

    def ancestors(self, g, n):
        if not getattr(g, "is_symbolic", False):
            return real_nx.ancestors(g, n)
        return _reach(g, n, g.predecessors)

    def descendants(self, g, n):
        if not getattr(g, "is_symbolic", False):
            return real_nx.descendants(g, n)
        return _reach(g, n, g.successors)

    def is_directed_acyclic_graph(self, g):
        if not getattr(g, "is_symbolic", False):
            return real_nx.is_directed_acyclic_graph(g)
        try:
            _topo(g)
            return True
        except real_nx.NetworkXUnfeasible:
            return False

    def topological_sort(self, g):
        if not getattr(g, "is_symbolic", False):
            return real_nx.topological_sort(g)
        return iter(_topo(g))

    def relabel_nodes(self, g, mapping, copy=True):
        if not getattr(g, "is_symbolic", False):
            return real_nx.relabel_nodes(g, mapping, copy=copy)
        if copy:
            raise NotImplementedError("relabel_nodes(copy=True) on a symbolic graph")
        if set(mapping.keys()) & set(mapping.values()):
            D = real_nx.DiGraph(list(mapping.items()))
            D.remove_edges_from(real_nx.selfloop_edges(D))
            nodes = list(reversed(list(real_nx.topological_sort(D))))
        else:
            nodes = [n for n in g if n in mapping]
        for old in nodes:
            if old not in mapping or old not in g:
                continue
            new = mapping[old]
            g.add_node(new, **dict(g.nodes[old].items()))
            if new == old:
                continue
            new_edges = [(new, new if old == t else t) for t in g.successors(old)]
            new_edges += [(new if old == s else s, new) for s in g.predecessors(old)]
            g.remove_node(old)
            g.add_edges_from(new_edges)
        return g


def _reach(g, n, step):
    if n not in g:
        raise real_nx.NetworkXError(f"The node {n} is not in the graph.")
    seen, todo = set(), [n]
    while todo:
        x = todo.pop()
        for y in step(x):
            if y not in seen:
                seen.add(y)
                todo.append(y)
    seen.discard(n) if not _selfreach(seen, n, step) else None
    return seen


def _selfreach(seen, n, step):
    # networkx: descendants(G, n) never contains n itself (even on a cycle through n)
    return False


def _topo(g):
    nodes = list(g)
    indeg = {n: 0 for n in nodes}
    succ = {n: list(g.successors(n)) for n in nodes}
    for n in nodes:
        for m in succ[n]:
            indeg[m] += 1
    ready = [n for n in nodes if indeg[n] == 0]
    out = []
    while ready:
        n = ready.pop(0)
        out.append(n)
        for m in succ[n]:
            indeg[m] -= 1
            if indeg[m] == 0:
                ready.append(m)
    if len(out) != len(nodes):
        raise real_nx.NetworkXUnfeasible("Graph contains a cycle or graph changed during iteration")
    return out


# ------------------------------------------------------------------- model <-> real networkx
def mval(m, t):
    return m.eval(t, model_completion=True)


def materialize(vars_, model, bbs=None, name="sym", OM=None):
    """real networkx-backed Circuit for a pre-state model"""
    import circuitgraph as cg

    P, T, O, E = vars_
    g = real_nx.DiGraph()
    for n in P:
        if z3.is_true(mval(model, P[n])):
            ti = mval(model, T[n]).as_long()
            attrs = {}
            if ti < len(TYPES):
                attrs["type"] = TYPES[ti]
            elif ti == UNSUPPORTED:
                attrs["type"] = BOGUS
            elif ti == NONSTR:
                attrs["type"] = 0
            if OM is None or not z3.is_true(mval(model, OM[n])):
                attrs["output"] = z3.is_true(mval(model, O[n]))
            g.add_node(n, **attrs)
    for (u, v), e in E.items():
        if z3.is_true(mval(model, e)) and u in g and v in g:
            g.add_edge(u, v)
    return cg.Circuit(name=name, graph=g, blackboxes=dict(bbs or {}))


def post_state(g, model):
    """evaluate the symbolic post-state of SymDiGraph g under a model -> (nodes: name->(type, output), edges set)"""
    nodes, edges = {}, set()
    for n in g.names():
        if z3.is_true(mval(model, g.present(n))):
            ti = mval(model, g.type_term(n)).as_long()
            t = TYPES[ti] if ti < len(TYPES) else (BOGUS if ti == UNSUPPORTED else (0 if ti == NONSTR else None))
            nodes[n] = (t, z3.is_true(mval(model, g.output_term(n))))
    for u in nodes:
        for v in nodes:
            if z3.is_true(mval(model, g.edge(u, v))):
                edges.add((u, v))
    return nodes, edges


def real_state(c):
    g = c.graph
    return {n: (g.nodes[n].get("type"), bool(g.nodes[n].get("output", False))) for n in g.nodes}, set(g.edges)
